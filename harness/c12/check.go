package main

import (
	"fmt"
	"strings"

	"github.com/tikv/client-go/v2/verifrt/models/refmvcc"
)

// finding is one disagreement found while checking a step.
type finding struct {
	key       string // stable class
	what      string
	violation bool // false: a stored-state difference without a consequence the property text states (reported in the evidence, not as a violation)
}

// variant names the command form (part of the stable key).
func variant(o Op) string {
	switch o.Kind {
	case "prewrite":
		m := o.Mode
		if len(o.Modes) > 0 {
			m = strings.Join(o.Modes, "+")
		}
		v := "prewrite[" + m
		if o.MutOp == "insert" || o.MutOp == "cne" {
			v += " " + o.MutOp
		}
		return v + "]"
	case "plock":
		v := "plock"
		if o.ForceLock {
			v += "[force]"
		}
		if o.LockOnlyIfExists {
			v += "[loie]"
		}
		return v
	case "status":
		v := "status["
		if o.Caller == refmvcc.MaxTS {
			v += "caller-max "
		}
		if o.RollbackIfNE {
			v += "rbne "
		}
		if o.ResolvingPes {
			v += "respes "
		}
		return strings.TrimSpace(v) + "]"
	case "resolve":
		if o.Commit == 0 {
			return "resolve[rollback]"
		}
		return "resolve[commit]"
	}
	return o.Kind
}

// situation describes what transaction `start` meets on key k in state s.
func situation(s *refmvcc.Store, k string, start uint64, withExistence bool) string {
	return situationD(s, k, start, withExistence, true)
}

// lockSituation is the lock part only.
func lockSituation(s *refmvcc.Store, k string, start uint64) string {
	return situationD(s, k, start, false, false)
}

func situationD(s *refmvcc.Store, k string, start uint64, withExistence, withRecords bool) string {
	var parts []string
	switch l := s.LockOf(k); {
	case l == nil:
		parts = append(parts, "no-lock")
	case l.Start == start && l.Op == refmvcc.OpPessimistic:
		parts = append(parts, "own-pessimistic-lock")
	case l.Start == start:
		parts = append(parts, "own-prewrite-lock")
	default:
		parts = append(parts, "foreign-lock")
	}
	if !withRecords {
		return parts[0]
	}
	ws := s.Writes(k)
	rec := ""
	for _, w := range ws {
		if w.Start == start {
			if w.Type == refmvcc.WRollback {
				rec = "own-rollback-record"
			} else {
				rec = "own-commit-record"
			}
		}
	}
	if rec == "" && len(ws) > 0 && ws[0].Commit > start {
		rec = "newer-record"
	}
	if rec != "" {
		parts = append(parts, rec)
	}
	if withExistence {
		if _, _, ok := s.Read(k, refmvcc.MaxTS); ok {
			parts = append(parts, "key-exists")
		}
	}
	return strings.Join(parts, "+")
}

func opSituation(s *refmvcc.Store, o Op, idx int) string {
	if len(o.Keys) == 0 {
		return "range"
	}
	if idx >= len(o.Keys) {
		idx = 0
	}
	ex := o.Kind == "plock" || o.MutOp == "insert" || o.MutOp == "cne"
	if o.Kind == "plock" {
		if l := s.LockOf(o.Keys[idx]); l != nil && l.Start == o.Start && l.Op != refmvcc.OpPessimistic {
			return "own-prewrite-lock"
		}
	}
	return situation(s, o.Keys[idx], o.Start, ex) + lockFieldSituation(s, o, o.Keys[idx])
}

// lockFieldSituation relates the ttl / min-commit-ts / commit-ts argument of a
// command to what the transaction's own lock on k holds. Only the relations
// in which the lock's value has to win are named (the request asks for less
// than the lock holds; a commit below the lock's min-commit-ts; a heartbeat
// that advises less than the lock's ttl), so that the common case keeps its key.
func lockFieldSituation(s *refmvcc.Store, o Op, k string) string {
	l := s.LockOf(k)
	if l == nil || l.Start != o.Start {
		return ""
	}
	q := ""
	switch o.Kind {
	case "prewrite", "plock":
		if l.Op != refmvcc.OpPessimistic && o.Kind == "plock" {
			return ""
		}
		if o.ttl() < l.TTL {
			q += "+req-ttl-below-lock"
		}
		if o.MinCommit < l.MinCommit {
			q += "+req-min-commit-below-lock"
		}
	case "commit":
		if o.Commit < l.MinCommit {
			q += "+below-min-commit"
		}
	case "heartbeat":
		if o.Advise < l.TTL {
			q += "+advise-below-ttl"
		}
	}
	return q
}

func payloadEqual(a, b refmvcc.Err, rpc bool) bool {
	if rpc && a.Class == refmvcc.AlreadyCommitted && (a.CommitTS == 0 || b.CommitTS == 0) {
		return true // the BatchRollback handler has no field for the commit ts
	}
	a.Alt, b.Alt = 0, 0
	return a == b
}

// matchErr: does the mock's answer got satisfy the reference want?
func matchErr(want, got refmvcc.Err, rpc bool) bool {
	if !want.Accepts(got.Class) {
		return false
	}
	if got.Class == want.Class {
		return payloadEqual(want, got, rpc)
	}
	return true
}

func errStr(e refmvcc.Err) string {
	s := e.Class.String()
	switch e.Class {
	case refmvcc.Locked:
		s += fmt.Sprintf("{key=%s start=%s primary=%s ttl=%d}", e.Key, u(e.LockStart), e.LockPrimary, e.LockTTL)
	case refmvcc.WriteConflict:
		s += fmt.Sprintf("{key=%s conflict-commit=%s}", e.Key, u(e.CommitTS))
	case refmvcc.AlreadyCommitted:
		s += fmt.Sprintf("{commit=%s}", u(e.CommitTS))
	case refmvcc.CommitTsExpired:
		s += fmt.Sprintf("{key=%s min-commit=%s}", e.Key, u(e.MinCommitTS))
	case refmvcc.AlreadyExists:
		s += "{key=" + e.Key + "}"
	}
	nAlt := 0
	for c := refmvcc.OK; c <= refmvcc.Abort; c++ {
		if c != e.Class && e.Alt&(1<<uint(c)) != 0 {
			nAlt++
		}
	}
	if nAlt > 6 {
		return s + "|any-refusal"
	}
	for c := refmvcc.OK; c <= refmvcc.Abort; c++ {
		if c != e.Class && e.Alt&(1<<uint(c)) != 0 {
			s += "|" + c.String()
		}
	}
	return s
}

func errsStr(es []refmvcc.Err) string {
	parts := make([]string, len(es))
	for i, e := range es {
		parts[i] = errStr(e)
	}
	return "[" + strings.Join(parts, " ") + "]"
}

func classes(es []refmvcc.Err) string {
	parts := make([]string, len(es))
	for i, e := range es {
		parts[i] = e.Class.String()
	}
	return strings.Join(parts, ",")
}

func nonOK(es []refmvcc.Err) []refmvcc.Err {
	var out []refmvcc.Err
	for _, e := range es {
		if !e.IsOK() {
			out = append(out, e)
		}
	}
	return out
}

// undefinedReason returns the reason if the reference leaves the step open.
func undefinedReason(want Result) string {
	for _, e := range want.Errs {
		if e.Undefined != "" {
			return e.Undefined
		}
	}
	return ""
}

// compareResult compares the answers; pre is the state before the step.
func compareResult(pre *refmvcc.Store, o Op, want, got Result, rpc bool) *finding {
	mk := func(idx int, w, g string) *finding {
		return &finding{
			key:       fmt.Sprintf("%s:%s:%s!=%s", variant(o), opSituation(pre, o, idx), g, w),
			what:      fmt.Sprintf("%s answered %s %v, reference %s %v", o, errsStr(got.Errs), got.Extra, errsStr(want.Errs), want.Extra),
			violation: true,
		}
	}
	firstBad := func(w []refmvcc.Err) int {
		for i, e := range w {
			if !e.IsOK() {
				return i
			}
		}
		return 0
	}
	compressed := (o.Kind == "prewrite" && rpc) || (o.Kind == "plock" && !o.ForceLock)
	if compressed {
		wantBad, gotBad := nonOK(want.Errs), nonOK(got.Errs)
		if len(gotBad) == 0 {
			// the mock accepted: every refusal the reference expects must be one that may also be OK
			var must []refmvcc.Err
			for _, w := range wantBad {
				if !w.Accepts(refmvcc.OK) {
					must = append(must, w)
				}
			}
			wantBad = must
		}
		if o.Kind == "plock" && (len(wantBad) == 0) != (len(gotBad) == 0) {
			idx := firstBad(want.Errs)
			return mk(idx, wantBadOrOK(wantBad)[0].Class.String(), wantBadOrOK(gotBad)[0].Class.String())
		}
		if o.Kind == "plock" && len(wantBad) == 0 {
			if strings.Join(want.Extra, ";") != strings.Join(got.Extra, ";") {
				return mk(0, "result", "result")
			}
			return nil
		}
		if o.Kind == "prewrite" {
			// Handler view (all lock errors, or only the first error of another kind):
			// every reported error must be one the reference allows for some mutation,
			// and an accepted request must be one the reference allows to be accepted.
			idxOf := func(g refmvcc.Err) int {
				for i, k := range o.Keys {
					if g.Key != "" && k == g.Key {
						return i
					}
				}
				return firstBad(want.Errs)
			}
			for _, g := range gotBad {
				ok := false
				for _, w := range want.Errs {
					if matchErr(w, g, rpc) {
						ok = true
					}
				}
				if !ok {
					i := idxOf(g)
					return mk(i, want.Errs[i].Class.String(), g.Class.String())
				}
			}
			if len(gotBad) == 0 && len(wantBad) > 0 {
				return mk(firstBad(want.Errs), wantBad[0].Class.String(), "OK")
			}
			return nil
		}
		// plock: the failed keys in order; the mock stops after the first locked key
		for i, g := range gotBad {
			if i >= len(wantBad) {
				return mk(firstBad(want.Errs), "OK", g.Class.String())
			}
			if !matchErr(wantBad[i], g, rpc) {
				return mk(firstBad(want.Errs), wantBad[i].Class.String(), g.Class.String())
			}
		}
		if len(gotBad) < len(wantBad) && gotBad[len(gotBad)-1].Class != refmvcc.Locked {
			return mk(firstBad(want.Errs), wantBad[len(gotBad)].Class.String(), "OK")
		}
		return nil
	}
	if len(want.Errs) != len(got.Errs) {
		return mk(0, classes(want.Errs), classes(got.Errs)+"(count)")
	}
	allOK := true
	for i := range want.Errs {
		if !matchErr(want.Errs[i], got.Errs[i], rpc) {
			g := got.Errs[i].Class.String()
			if got.Errs[i].Class == want.Errs[i].Class {
				g += "(payload)"
			}
			return mk(i, want.Errs[i].Class.String(), g)
		}
		if !want.Errs[i].IsOK() || !got.Errs[i].IsOK() {
			allOK = false
		}
	}
	if (allOK || o.ForceLock) && strings.Join(want.Extra, ";") != strings.Join(got.Extra, ";") {
		return mk(0, "result", "result")
	}
	return nil
}

func wantBadOrOK(es []refmvcc.Err) []refmvcc.Err {
	if len(es) == 0 {
		return []refmvcc.Err{{}}
	}
	return es
}

// stateLaws checks, on the mock's stored records after a step, the laws the
// property text states about stored state; post is the reference state after
// the step, pre the one before.
func stateLaws(pre, post *refmvcc.Store, o Op, mockDump string) []finding {
	var out []finding
	has := func(k, needle string) bool {
		for _, line := range strings.Split(mockDump, "\n") {
			if strings.HasPrefix(line, k+":") && strings.Contains(line, needle) {
				return true
			}
		}
		return false
	}
	// every key on which the reference wrote a rollback marker in this step
	for _, k := range post.Keys() {
		before := map[uint64]bool{}
		for _, w := range pre.Writes(k) {
			before[w.Commit] = true
		}
		for _, w := range post.Writes(k) {
			if before[w.Commit] {
				continue
			}
			if w.Type == refmvcc.WRollback {
				// "a rollback (by batch rollback, cleanup, status check or resolve) leaves a marker"
				if !has(k, fmt.Sprintf("W{%s<-%s Rollback", u(w.Commit), u(w.Start))) {
					out = append(out, finding{
						key:       variant(o) + ":" + lockSituation(pre, k, w.Start) + ":no-rollback-marker-left",
						what:      fmt.Sprintf("%s succeeded but left no rollback marker for transaction %s on key %s", o, u(w.Start), k),
						violation: true,
					})
				}
			}
			if w.Type == refmvcc.WLock {
				if l := pre.LockOf(k); l != nil && l.Op == refmvcc.OpPessimistic && l.Start == w.Start {
					// "committing a leftover pessimistic lock changes no data"
					for _, ty := range []string{"Put", "Delete"} {
						if has(k, fmt.Sprintf("W{%s<-%s %s", u(w.Commit), u(w.Start), ty)) {
							out = append(out, finding{
								key:       variant(o) + ":" + lockSituation(pre, k, w.Start) + ":data-record-written(" + ty + ")",
								what:      fmt.Sprintf("%s committed the leftover pessimistic lock on key %s as a %s record: data changes", o, k, ty),
								violation: true,
							})
						}
					}
				}
			}
		}
	}
	return out
}

// Harness C18 - batched RPC multiplexing returns each caller its own response, exactly once.
//
// Subject: the real client.RPCClient (batchConn / batchCommandsClient / send + recv loops) of
// /repo/internal/client talking real gRPC over an in-memory bufconn listener to a scripted echo
// server whose BatchCommands handler never answers by itself.
//
// Level 1 (the claimed check): all orders of the ENVIRONMENT events
//
//	S<i>[h|f|a]  caller i submits (payload "c<i>"; high priority / forwarded / async API)
//	A:<p>        the server answers the pending request with payload p (any order)
//	AA:<k>       the server answers all pending requests of stream k in one message, newest first
//	A!:<p>       the server sends a stale / duplicate response for p's request id on the live stream
//	D:<k>        the server drops stream k (handler returns an error); the client re-creates it
//	C<i> T<i>    caller i's context is cancelled / its (virtual) time-out fires
//	NS           the next write of a batch to a stream fails (io.EOF), as on a stream the server has ended
//	X  XA        RPCClient.Close / CloseAddr
//
// with at most F deviation events (everything except plain submissions and answers), in several
// configurations (callers, connections per store, concurrency limit). Between two events the
// goroutines of the client, of gRPC and of the server run freely; the explorer continues only at
// quiescence: one P, the scheduler metrics say that no other goroutine is runnable or in a system
// call (cross-checked with full stack snapshots), and no dial budget is pending (the budget of
// waitConnReady is a virtual timer that elapses at quiescence). Every execution uses a fresh
// client, server and listener. Executions are sharded over worker processes (GOMAXPROCS=1 each).
//
// Oracle, after every event (before/after observation of all callers and of the server's table):
// a call completes at most once; a success carries the caller's own payload; an error belongs to an
// allowed class and names a cause that happened to this call; an event completes exactly the calls
// it concerns (answer -> that call succeeds; stream failure -> no call of another stream fails; a
// call of the failed stream that stays pending is only an observation, it must return by its own
// time-out / cancellation / Close; cancel / time-out -> that call; Close -> all); Close returns; a call never
// completes with neither a response nor an error; no panic in callers or recovered inside the client's loops; no loop of the client spins for ever.
//
// Part B (configurations with part=B) explores one class in depth: callers give up (C<i>, T<i>) AFTER their
// request was written to the stream and the server answers those requests LATER (A:<p> stays enabled for a
// request whose caller has gone), in all orders relative to the events of the other calls, followed by further
// calls - plain ones (with a time-out) and asynchronous ones (S<i>a, no deadline at all; a default event in this
// part) - on a store that is healthy: no stream is dropped, no write fails, nothing is closed. Limits 1, 2 (3 in
// the thorough tier) and the default. The healthy-store oracle (explore.go: request-never-sent /
// call-never-returns / slot-accounting) is evaluated in every configuration of both parts, and every execution
// ends with the drain epilogue (answer everything, wake the send loop with a high-priority probe call, repeat)
// before the final Close.
//
// Part C (configurations with part=C; collapse.go) explores the request-collapse layer that production puts on top of
// the RPC client - NewReqCollapse(NewInterceptedClient(client)) - on a scripted store that parks and echoes every
// request: concurrent region-level ResolveLock requests (identical, plainly different, and different ones whose
// decimal fields concatenate to the same text), resolve-lock lite / batch resolve / other commands that must never
// be merged, through SendRequest and SendRequestAsync, in all orders relative to the answer / failure / time-out of
// the requests at the store and to the cancellation / time-out of the waiting callers. Oracle: own response, exactly
// once, and every request that is not identical to a pending one reaches the store (see the header of collapse.go).
//
// Part D (configurations with part=D) explores time-outs that fire while a request is selected into a batch but not
// yet written to the stream: the store accepts the dial, but the connection becomes ready only at the environment
// event R (a default event, possible at every point - so it can be delayed past any caller's time-out). Until then
// the send loop waits in waitConnReady holding its first batch, later submissions (plain, high priority, forwarded,
// asynchronous) queue behind it, and T<i> / C<i> / DB (the dial budget elapses: connection failure) / X (Close)
// happen in all orders. Same oracle: T -> that call returns a time-out error, exactly once, nobody else returns; a
// panic in the caller's goroutine is recovered by the caller wrapper and reported as panic/caller/<api>/after-<event>/
// request-not-yet-written:connection-not-ready; after R the healthy-store oracle applies again.
//
// Nothing is decided by wall-clock time. If quiescence cannot be established, or an execution took
// longer than 0.5 s (a real timer of gRPC could have fired), the execution is repeated and finally
// counted as inconclusive (exhaustive:false). A violation is believed only if three re-executions
// of the same event prefix, each auditing every quiescence with a stack snapshot, violate the same
// rule. A worker process in which a goroutine of a finished execution keeps running is replaced and
// its subtree re-done.
//
// Files: main.go (processes, reporting, replay), world.go (server, callers, virtual timers,
// quiescence), explore.go (events, oracle, depth-first enumeration), collapse.go (part C: scripted store,
// request shapes, events, reference model), vctx/ (context shim).
package main

import (
	"bufio"
	"encoding/json"
	"flag"
	"fmt"
	"io"
	"os"
	"os/exec"
	"runtime"
	"runtime/debug"
	"sort"
	"strconv"
	"strings"
	"sync"
	"time"

	"github.com/pingcap/log"
	"github.com/tikv/client-go/v2/verifrt/ev"
	"go.uber.org/zap"
	"go.uber.org/zap/zapcore"
	"google.golang.org/grpc/grpclog"
)

// ---------- log capture (recovered panics are only visible in the client's log) ----------

var (
	logMu     sync.Mutex
	panicLogs []string
	errorLogs = map[string]int{}
)

func installLogCapture() {
	grpclog.SetLoggerV2(grpclog.NewLoggerV2(io.Discard, io.Discard, io.Discard))
	log.ReplaceGlobals(zap.New(&captureCore{}), &log.ZapProperties{})
}

// captureCore keeps error-level entries; entries of the recover() sites of the client are panics.
type captureCore struct{ fields []zapcore.Field }

func (c *captureCore) Enabled(l zapcore.Level) bool { return l >= zapcore.ErrorLevel }
func (c *captureCore) With(f []zapcore.Field) zapcore.Core {
	return &captureCore{fields: append(append([]zapcore.Field{}, c.fields...), f...)}
}
func (c *captureCore) Check(e zapcore.Entry, ce *zapcore.CheckedEntry) *zapcore.CheckedEntry {
	if c.Enabled(e.Level) {
		return ce.AddCore(e, c)
	}
	return ce
}
func (c *captureCore) Sync() error { return nil }
func (c *captureCore) Write(e zapcore.Entry, fs []zapcore.Field) error {
	logMu.Lock()
	defer logMu.Unlock()
	errorLogs[e.Message]++
	switch e.Message {
	case "batchRecvLoop", "batchSendLoop", "batchCommandsClient.recv panic":
		enc := zapcore.NewMapObjectEncoder()
		for _, f := range append(append([]zapcore.Field{}, c.fields...), fs...) {
			if f.Key == "r" {
				f.AddTo(enc)
			}
		}
		panicLogs = append(panicLogs, fmt.Sprintf("%s: %v", e.Message, enc.Fields["r"]))
	}
	return nil
}

func panicLogCount() int {
	logMu.Lock()
	defer logMu.Unlock()
	return len(panicLogs)
}

func panicLogsSince(mark int) (int, string) {
	logMu.Lock()
	defer logMu.Unlock()
	if len(panicLogs) <= mark {
		return 0, ""
	}
	var distinct []string
	seen := map[string]int{}
	for _, m := range panicLogs[mark:] {
		if seen[m] == 0 {
			distinct = append(distinct, m)
		}
		seen[m]++
	}
	for i, m := range distinct {
		if seen[m] > 1 {
			distinct[i] = fmt.Sprintf("%s (x%d)", m, seen[m])
		}
	}
	return len(panicLogs) - mark, strings.Join(distinct, "; ")
}

// ---------- worker process ----------

type workItem struct {
	Cfg      Config   `json:"cfg"`
	Prefix   []string `json:"prefix"`
	Frontier int      `json:"frontier"` // > 0: only list the prefixes of this length
	Deadline int64    `json:"deadline"` // unix seconds, 0 = none
}

func workerMain() {
	runtime.GOMAXPROCS(1)
	// No concurrent garbage collection inside an execution: mark workers are started by the scheduler
	// itself (they are not in a run queue) and a goroutine parked in "GC assist wait" is woken by them,
	// which the run-queue based quiescence test cannot see. The heap is collected between executions.
	// (The memory limit keeps the collector as a safety valve: it only starts when the heap approaches
	// the limit, which happens when a loop of the client spins and allocates without end - a state
	// that is not quiet anyway - and never in the 20 ordinary executions between two collections.)
	debug.SetGCPercent(-1)
	debug.SetMemoryLimit(192 << 20)
	installLogCapture()
	if v := os.Getenv("VERIF_C18_AUDIT_EVERY"); v != "" {
		auditEvery, _ = strconv.ParseInt(v, 10, 64)
	}
	if !metricsUsable() {
		fmt.Println(`{"fatal":"scheduler metrics not available"}`)
		os.Exit(3)
	}
	dump := os.Getenv("VERIF_C18_DUMPSTATES")
	if dump != "" {
		stateDump = map[string]struct{}{}
		defer func() {
			f, _ := os.OpenFile(fmt.Sprintf("%s.%d", dump, os.Getpid()), os.O_CREATE|os.O_WRONLY|os.O_TRUNC, 0o644)
			for s := range stateDump {
				fmt.Fprintln(f, s)
			}
			f.Close()
		}()
	}
	in := bufio.NewScanner(os.Stdin)
	in.Buffer(make([]byte, 1<<20), 1<<26)
	out := bufio.NewWriter(os.Stdout)
	for in.Scan() {
		var it workItem
		if err := json.Unmarshal(in.Bytes(), &it); err != nil {
			fmt.Fprintln(os.Stderr, "bad work item:", err)
			os.Exit(3)
		}
		expired := func() bool { return it.Deadline > 0 && time.Now().Unix() >= it.Deadline }
		var res *subtreeResult
		if it.Frontier > 0 {
			res = frontier(it.Cfg, it.Frontier)
		} else {
			res = exploreSubtree(it.Cfg, it.Prefix, expired)
		}
		logMu.Lock()
		if len(errorLogs) > 0 {
			if res.Extra == nil {
				res.Extra = map[string][]string{}
			}
			for m, n := range errorLogs {
				res.Extra["error_logs"] = append(res.Extra["error_logs"], fmt.Sprintf("%s x%d", m, n))
			}
			errorLogs = map[string]int{}
		}
		logMu.Unlock()
		res.Extra2(runtime.NumGoroutine())
		if len(mismatchSamples) > 0 {
			res.Extra["mismatch_samples"] = mismatchSamples
			mismatchSamples = nil
		}
		if poisoned {
			res.Extra["poisoned"] = []string{poisonedWhy}
		}
		b, _ := json.Marshal(res)
		out.Write(b)
		out.WriteByte('\n')
		out.Flush()
		if poisoned {
			return // the parent starts a fresh worker
		}
	}
}

func (r *subtreeResult) Extra2(g int) {
	if r.Extra == nil {
		r.Extra = map[string][]string{}
	}
	r.Extra["goroutines"] = []string{strconv.Itoa(g)}
}

type worker struct {
	ip  io.WriteCloser
	cmd *exec.Cmd
	in  *bufio.Writer
	out *bufio.Scanner
	n   int
}

func startWorker() (*worker, error) {
	cmd := exec.Command(os.Args[0], "-worker")
	cmd.Env = append(os.Environ(), "GOMAXPROCS=1")
	cmd.Stderr = os.Stderr
	ip, err := cmd.StdinPipe()
	if err != nil {
		return nil, err
	}
	op, err := cmd.StdoutPipe()
	if err != nil {
		return nil, err
	}
	if err := cmd.Start(); err != nil {
		return nil, err
	}
	sc := bufio.NewScanner(op)
	sc.Buffer(make([]byte, 1<<20), 1<<28)
	return &worker{ip: ip, cmd: cmd, in: bufio.NewWriter(ip), out: sc}, nil
}

func (w *worker) do(it workItem) (*subtreeResult, error) {
	b, _ := json.Marshal(it)
	w.in.Write(b)
	w.in.WriteByte('\n')
	if err := w.in.Flush(); err != nil {
		return nil, err
	}
	if !w.out.Scan() {
		return nil, fmt.Errorf("worker died: %v", w.out.Err())
	}
	var res subtreeResult
	if err := json.Unmarshal(w.out.Bytes(), &res); err != nil {
		return nil, fmt.Errorf("bad worker output: %v: %.200s", err, w.out.Bytes())
	}
	w.n += res.Executions
	return &res, nil
}

func (w *worker) stop() {
	w.ip.Close() // end of input: the worker leaves its loop and exits
	done := make(chan struct{})
	go func() { w.cmd.Wait(); close(done) }()
	select {
	case <-done:
	case <-time.After(10 * time.Second):
		w.cmd.Process.Kill()
		<-done
	}
}

// ---------- parent ----------

type totals struct {
	mu              sync.Mutex
	executions      int
	steps           int
	events          int
	nontrivial      int
	diverged        int
	states          map[uint64]struct{}
	outcomes        map[string]int
	inconclusive    map[string]int
	byF             map[string]int
	kinds           map[string]int
	maxDepth        int
	maxBatch        int
	audits          int64
	mismatch        int64
	errorLogs       map[string]bool
	viol            map[string]violHit
	violCfg         map[string]Config
	obs             map[string]violHit
	obsCfg          map[string]Config
	perCfg          []map[string]any
	lost            int
	drainEvents     int
	probes          int
	lateAnswers     int
	execLate        int
	execLateFollow  int
	execLateFull    int
	acctChecks      int
	sendChecks      int
	partB           map[string]int
	partC           map[string]int
	partD           map[string]int
	poisoned        int
	mismatchSamples []string
	details         []string
}

func (t *totals) merge(cfg Config, r *subtreeResult) {
	t.mu.Lock()
	defer t.mu.Unlock()
	t.executions += r.Executions
	t.steps += r.Steps
	t.events += r.Events
	t.nontrivial += r.NonTrivial
	t.diverged += r.Diverged
	t.drainEvents += r.DrainEvents
	t.probes += r.Probes
	t.lateAnswers += r.LateAnswers
	t.execLate += r.ExecLate
	t.execLateFollow += r.ExecLateFollow
	t.execLateFull += r.ExecLateFull
	t.acctChecks += r.AcctChecks
	t.sendChecks += r.SendChecks
	if cfg.Part == "B" {
		t.partB["executions"] += r.Executions
		t.partB["events"] += r.Events
		t.partB["late_answers_to_abandoned_requests"] += r.LateAnswers
		t.partB["executions_with_late_answer_then_further_call"] += r.ExecLateFollow
		t.partB["executions_with_at_least_limit_late_answers_then_further_call"] += r.ExecLateFull
	}
	for k, v := range r.PartC {
		t.partC[k] += v
	}
	for k, v := range r.PartD {
		t.partD[k] += v
	}
	for _, s := range r.States {
		t.states[s] = struct{}{}
	}
	for k, v := range r.Outcomes {
		t.outcomes[k] += v
	}
	for k, v := range r.Inconclusive {
		t.inconclusive[k] += v
	}
	for k, v := range r.ByF {
		t.byF[k] += v
	}
	for k, v := range r.EventKinds {
		t.kinds[k] += v
	}
	if r.MaxDepth > t.maxDepth {
		t.maxDepth = r.MaxDepth
	}
	if r.MaxBatch > t.maxBatch {
		t.maxBatch = r.MaxBatch
	}
	t.audits += r.Audits
	t.mismatch += r.Mismatch
	for _, m := range r.Extra["mismatch_samples"] {
		if len(t.mismatchSamples) < 10 {
			t.mismatchSamples = append(t.mismatchSamples, m)
		}
	}
	for _, m := range r.Extra["inconclusive_details"] {
		if len(t.details) < 12 {
			t.details = append(t.details, m)
		}
	}
	for _, m := range r.Extra["error_logs"] {
		t.errorLogs[m[:strings.LastIndex(m, " x")]] = true
	}
	for k, h := range r.Obs {
		old, ok := t.obs[k]
		n := old.Count + h.Count
		if !ok || simpler(h.Events, old.Events) {
			old = h
			t.obsCfg[k] = cfg
		}
		old.Count = n
		t.obs[k] = old
	}
	for k, h := range r.Viol {
		old, ok := t.viol[k]
		n := old.Count + h.Count
		if !ok || simpler(h.Events, old.Events) {
			old = h
			t.violCfg[k] = cfg
		}
		old.Count = n
		t.viol[k] = old
	}
}

var run *ev.Run

func tierConfigs(thorough bool) []Config {
	if s := os.Getenv("VERIF_C18_CFG"); s != "" { // diagnostics: callers,maxf,conns,limit,variants,stale,addrx[,part]
		var c Config
		var v, st, ax int
		fmt.Sscanf(s, "%d,%d,%d,%d,%d,%d,%d,%s", &c.Callers, &c.MaxF, &c.Conns, &c.Limit, &v, &st, &ax, &c.Part)
		c.Variants, c.Stale, c.AddrX = v != 0, st != 0, ax != 0
		if part, grid, ok := strings.Cut(c.Part, "/"); ok { // e.g. 2,2,0,0,0,0,0,C/pairs
			c = Config{Part: part, Grid: grid, Callers: c.Callers, MaxF: c.MaxF}
		}
		return []Config{c}
	}
	if !thorough {
		return []Config{
			// part C (collapse.go; cheap, so it comes first): the request-collapse layer on a scripted store; every pair of
			// the 15 request shapes x {SendRequest, SendRequestAsync}, then 3 callers over the 5 shapes of the small grid
			{Part: "C", Callers: 2, MaxF: 3, Grid: "pairs"},
			{Part: "C", Callers: 3, MaxF: 1, Grid: "small"},
			{Callers: 2, MaxF: 3, Conns: 1, Variants: true, Stale: true, AddrX: true},
			{Callers: 3, MaxF: 3, Conns: 1, Variants: true, Stale: true, AddrX: true},
			// concurrency limit 1: later requests queue inside the send loop (priorities matter, batches > 1)
			{Callers: 3, MaxF: 2, Conns: 1, Limit: 1, Variants: true, Stale: false, AddrX: false},
			// concurrency limit 2 with the whole alphabet of part A
			{Callers: 3, MaxF: 2, Conns: 1, Limit: 2, Variants: true, Stale: false, AddrX: false},
			// part B: callers give up after their request was written, the server answers late, further calls
			// (plain = with time-out, a = asynchronous, no deadline) follow on the healthy store; limits 1, 2, default
			{Part: "B", Callers: 3, MaxF: 3, Conns: 1, Limit: 1},
			{Part: "B", Callers: 3, MaxF: 3, Conns: 1, Limit: 2},
			{Part: "B", Callers: 3, MaxF: 3, Conns: 1},
			{Part: "B", Callers: 4, MaxF: 3, Conns: 1, Limit: 1},
			{Part: "B", Callers: 4, MaxF: 2, Conns: 1, Limit: 2},
			// part D: the connection of the store is not ready when the first calls arrive (event R = ready, DB = dial
			// budget elapsed): time-outs / cancellations / Close hit calls that are selected into a batch (or queued behind
			// it) but not yet written; default limit and limit 1
			{Part: "D", Callers: 3, MaxF: 2, Conns: 1, Variants: true},
			{Part: "D", Callers: 3, MaxF: 2, Conns: 1, Limit: 1, Variants: true},
		}
	}
	return []Config{
		// part C, deeper: every pair of the full grid (regions {1,12,123} x start versions {1,2,3,21,23}, flags, kinds),
		// three callers over the 15 shapes of the quick tier's pair grid, three (F<=2) and four callers over the small grid
		{Part: "C", Callers: 2, MaxF: 3, Grid: "full"},
		{Part: "C", Callers: 3, MaxF: 1, Grid: "pairs"},
		{Part: "C", Callers: 3, MaxF: 2, Grid: "small"},
		{Part: "C", Callers: 4, MaxF: 0, Grid: "small"},
		// part B (see the quick tier), deeper: more callers / more callers that give up, limit 3, two connections
		{Part: "B", Callers: 4, MaxF: 4, Conns: 1, Limit: 1},
		{Part: "B", Callers: 4, MaxF: 4, Conns: 1, Limit: 2},
		{Part: "B", Callers: 4, MaxF: 3, Conns: 1},
		{Part: "B", Callers: 5, MaxF: 3, Conns: 1, Limit: 1},
		{Part: "B", Callers: 5, MaxF: 2, Conns: 1, Limit: 2},
		{Part: "B", Callers: 5, MaxF: 2, Conns: 1, Limit: 3},
		{Part: "B", Callers: 4, MaxF: 3, Conns: 2, Limit: 1},
		// part D (see the quick tier), deeper
		{Part: "D", Callers: 3, MaxF: 3, Conns: 1, Variants: true},
		{Part: "D", Callers: 4, MaxF: 2, Conns: 1, Variants: true},
		{Part: "D", Callers: 3, MaxF: 3, Conns: 1, Limit: 1, Variants: true},
		{Callers: 3, MaxF: 3, Conns: 1, Limit: 2, Variants: true, Stale: true, AddrX: true},
		{Callers: 2, MaxF: 4, Conns: 1, Variants: true, Stale: true, AddrX: true},
		{Callers: 3, MaxF: 4, Conns: 1, Variants: true, Stale: true, AddrX: true},
		{Callers: 4, MaxF: 3, Conns: 1, Variants: true, Stale: true, AddrX: true},
		// concurrency limits: later requests queue inside the send loop (priorities matter, batches > 1)
		{Callers: 3, MaxF: 2, Conns: 1, Limit: 1, Variants: true, Stale: true, AddrX: true},
		{Callers: 4, MaxF: 2, Conns: 1, Limit: 2, Variants: true, Stale: true, AddrX: false},
		// two connections per store: round robin over two batch clients, each with its own streams
		{Callers: 3, MaxF: 3, Conns: 2, Variants: true, Stale: true, AddrX: false},
	}
}

func exploreConfig(cfg Config, tot *totals, samples *ev.Samples, nproc int, deadline time.Time) {
	start := time.Now()
	before := tot.executions
	fw, err := startWorker()
	if err != nil {
		run.Incomplete("cannot start worker: " + err.Error())
		return
	}
	dl := int64(0)
	if !deadline.IsZero() {
		dl = deadline.Unix()
	}
	splitDepth := 3 // subtrees are handed to the workers at this depth
	if cfg.Callers >= 4 {
		splitDepth = 5 // (the all-default prefixes S0 S1 S2 ... carry most of the tree: split them further)
	}
	if cfg.Part == "C" {
		splitDepth = 2 // (wide tree: every request shape x API is a branch of a submission)
		if cfg.Callers >= 3 {
			splitDepth = 3
		}
	}
	fr, err := fw.do(workItem{Cfg: cfg, Frontier: splitDepth})
	fw.stop()
	if err != nil {
		run.Incomplete(fmt.Sprintf("frontier of %v: %v", cfg, err))
		return
	}
	tot.merge(cfg, fr)
	items := fr.Frontier
	// big subtrees first (prefixes that spent no deviation yet have the largest subtrees)
	sort.SliceStable(items, func(i, j int) bool {
		ci, cj := 0, 0
		for _, e := range items[i] {
			ci += cfg.cost(e)
		}
		for _, e := range items[j] {
			cj += cfg.cost(e)
		}
		return ci < cj
	})
	ch := make(chan []string)
	var wg sync.WaitGroup
	for p := 0; p < nproc; p++ {
		wg.Add(1)
		go func() {
			defer wg.Done()
			var w *worker
			defer func() {
				if w != nil {
					w.stop()
				}
			}()
			for prefix := range ch {
				// A worker in which a goroutine of a finished execution keeps running ("poisoned") cannot
				// reach quiescence any more: its partial result is dropped and the subtree is given to a
				// fresh process (at most 3 attempts, then the last result is taken as it is).
				for attempt := 1; ; attempt++ {
					if w == nil {
						var err error
						if w, err = startWorker(); err != nil {
							run.Incomplete("cannot start worker: " + err.Error())
							tot.mu.Lock()
							tot.lost++
							tot.mu.Unlock()
							break
						}
					}
					res, err := w.do(workItem{Cfg: cfg, Prefix: prefix, Deadline: dl})
					if err != nil {
						run.Incomplete(fmt.Sprintf("worker failed on subtree %v: %v", prefix, err))
						tot.mu.Lock()
						tot.lost++
						tot.mu.Unlock()
						w.stop()
						w = nil
						break
					}
					if res.WallMs > 30000 {
						fmt.Fprintf(os.Stderr, "c18: slow subtree %v: %d executions in %.1fs; slowest execution %.1fs %v\n", prefix, res.Executions, float64(res.WallMs)/1000, float64(res.SlowestMs)/1000, res.Slowest)
					}
					if len(res.Extra["poisoned"]) > 0 {
						w.stop()
						w = nil
						tot.mu.Lock()
						tot.poisoned++
						if len(tot.details) < 12 {
							tot.details = append(tot.details, fmt.Sprintf("worker replaced while exploring %v: %v", prefix, res.Extra["poisoned"]))
						}
						tot.mu.Unlock()
						if attempt < 3 && (dl == 0 || time.Now().Unix() < dl) {
							continue
						}
					}
					tot.merge(cfg, res)
					for _, s := range res.Samples {
						s := s
						samples.Add(func() any { return map[string]any{"config": cfg.String(), "events": s} })
					}
					if w != nil && w.n > 4000 { // recycle the process now and then (bounded memory / leftover goroutines)
						w.stop()
						w = nil
					}
					break
				}
			}
		}()
	}
	for _, it := range items {
		ch <- it
	}
	close(ch)
	wg.Wait()
	tot.mu.Lock()
	tot.perCfg = append(tot.perCfg, map[string]any{"config": cfg.String(), "executions": tot.executions - before,
		"subtrees": len(items), "wall_s": float64(int(time.Since(start).Seconds()*10)) / 10})
	tot.mu.Unlock()
}

// partCGrids lists the request shapes of every grid used by a part C configuration (for the evidence).
func partCGrids(cfgs []Config) map[string][]string {
	out := map[string][]string{}
	for _, c := range cfgs {
		if c.Part != "C" || out[c.Grid] != nil {
			continue
		}
		for _, s := range gridShapes(c.Grid) {
			out[c.Grid] = append(out[c.Grid], s.Name+" = {"+s.content()+"}")
		}
	}
	return out
}

type replayArt struct {
	Cfg    Config   `json:"cfg"`
	Events []string `json:"events"`
}

func doReplay(file string) {
	b, err := os.ReadFile(file)
	if err != nil {
		fmt.Fprintln(os.Stderr, err)
		os.Exit(2)
	}
	var f struct {
		Key    string    `json:"key"`
		Replay replayArt `json:"replay"`
	}
	if err := json.Unmarshal(b, &f); err != nil {
		fmt.Fprintln(os.Stderr, err)
		os.Exit(2)
	}
	runtime.GOMAXPROCS(1)
	debug.SetGCPercent(-1)
	debug.SetMemoryLimit(192 << 20)
	installLogCapture()
	paranoid = true
	fails := 0
	const n = 5
	for i := 0; i < n; i++ {
		t := runOne(f.Replay.Cfg, f.Replay.Events, false)
		if poisoned {
			fmt.Printf("replay %d: a goroutine of this execution could not be stopped (busy: %s)\n", i, busyGoroutines())
		}
		if i == 0 {
			fmt.Printf("in-flight table before the final Close: %d entr(y/ies), sent counter %d, outcome %s\n", t.InflightEntries, t.InflightSent, t.Outcome)
		}
		switch {
		case t.Inconclusive != "":
			fmt.Printf("replay %d: inconclusive: %s\n", i, t.Inconclusive)
		case len(t.Viol) > 0:
			fails++
			v := t.Viol[0]
			for _, x := range t.Viol { // prefer the class the replay file was written for
				if x.Key == f.Key {
					v = x
				}
			}
			fmt.Printf("replay %d: %s: %s\n", i, v.Key, v.What)
			if i == 0 {
				run.Violation(v.Key, v.What, f.Replay)
			}
		default:
			fmt.Printf("replay %d: no violation; outcome %s\n", i, t.Outcome)
		}
	}
	fmt.Printf("replay of %v: %d/%d runs violate\n", f.Replay.Events, fails, n)
	run.Finish(ev.Coverage{"states": 0, "transitions": len(f.Replay.Events) * n, "traces_validated_against_impl": n,
		"evaluations": n, "distinct_nontrivial": 1, "rule": "replay of one recorded event sequence", "samples": []any{f.Replay}}, nil)
}

func main() {
	workerFlag := flag.Bool("worker", false, "internal: worker process")
	replayFile := flag.String("replay", "", "replay file written by a previous run")
	procs := flag.Int("procs", 0, "worker processes (default: number of CPUs)")
	flag.Parse()
	if *workerFlag {
		workerMain()
		return
	}
	run = ev.Start("C18", "model_checking")
	if *replayFile != "" {
		if os.Getenv("VERIF_EVIDENCE_DIR") == "" {
			run.OutDir = os.TempDir() + "/c18-replay" // do not clobber the evidence of the last full run
		}
		doReplay(*replayFile)
		return
	}
	nproc := runtime.NumCPU()
	if s := os.Getenv("VERIF_PROCS"); s != "" {
		if n, err := strconv.Atoi(s); err == nil && n > 0 {
			nproc = n
		}
	}
	if *procs > 0 {
		nproc = *procs
	}
	budget := 150 * time.Second
	if run.Thorough() {
		budget = 27 * time.Minute
	}
	if s := os.Getenv("VERIF_BUDGET_S"); s != "" {
		if n, err := strconv.Atoi(s); err == nil && n > 0 {
			budget = time.Duration(n) * time.Second
		}
	}
	deadline := time.Now().Add(budget)
	tot := &totals{states: map[uint64]struct{}{}, outcomes: map[string]int{}, inconclusive: map[string]int{}, byF: map[string]int{},
		kinds: map[string]int{}, partB: map[string]int{}, partC: map[string]int{}, partD: map[string]int{}, errorLogs: map[string]bool{}, viol: map[string]violHit{}, violCfg: map[string]Config{}, obs: map[string]violHit{}, obsCfg: map[string]Config{}}
	samples := ev.NewSamples(6, run.Seed)
	cfgs := tierConfigs(run.Thorough())
	var cfgNames []string
	for _, cfg := range cfgs {
		cfgNames = append(cfgNames, cfg.String())
		if time.Now().After(deadline) {
			run.Incomplete("budget exhausted before configuration " + cfg.String())
			continue
		}
		exploreConfig(cfg, tot, samples, nproc, deadline)
	}
	for k, h := range tot.viol {
		run.Violation(k, fmt.Sprintf("%s [events %v; %d execution(s); %s]", h.What, h.Events, h.Count, tot.violCfg[k]), replayArt{Cfg: tot.violCfg[k], Events: h.Events})
	}
	observations := map[string]any{}
	pendingOther := 0
	for k, h := range tot.obs {
		if strings.HasPrefix(k, "pending_until_own_timeout_after_other_stream_failure") {
			pendingOther += h.Count
		}
		observations[k] = map[string]any{"executions": h.Count, "shortest_sequence": h.Events, "config": tot.obsCfg[k].String(), "what": h.What}
		run.Note("observation (not a violation) %s: %d execution(s), shortest sequence %v", k, h.Count, h.Events)
	}
	inconclusive := 0
	for k, n := range tot.inconclusive {
		inconclusive += n
		run.Incomplete(fmt.Sprintf("%d execution(s) inconclusive: %s", n, k))
		fmt.Fprintf(os.Stderr, "c18: %d execution(s) inconclusive: %s\n", n, k)
	}
	if tot.mismatch > 0 {
		run.Note("stack audit disagreed with the scheduler metrics %d time(s); the quiescence wait continued until both agreed", tot.mismatch)
	}
	var elogs []string
	for m := range tot.errorLogs {
		elogs = append(elogs, m)
	}
	sort.Strings(elogs)
	run.Finish(ev.Coverage{
		"states":                        len(tot.states),
		"transitions":                   tot.events,
		"traces_validated_against_impl": tot.executions,
		"evaluations":                   tot.steps,
		"distinct_nontrivial":           tot.nontrivial,
		"rule": "stateless depth-first enumeration of all sequences of environment events (submit, answer in any order, batch answer, stale answer, " +
			"stream drop, cancel, time-out, Close, CloseAddr) with at most F deviation events, each on a fresh RPCClient + gRPC server; callers submit in index order " +
			"(the index is only a name); states = distinct observation states (caller status and result class, server request table, streams, closed flags); " +
			"transitions = events executed on the real client; evaluations = events after which the oracle compared before/after observations; " +
			"non-trivial = execution with a deviation event or >= 2 calls in flight at once. " +
			"Part C (configurations part=C, collapse.go): the same enumeration on NewReqCollapse(NewInterceptedClient(scripted store)): events = caller i submits " +
			"request shape s through SendRequest / SendRequestAsync (every shape of the grid x both APIs is a branch), the store answers / fails / times out its n-th request " +
			"(any order), caller i cancels / its own time-out fires; at most F failures, time-outs and cancellations; states there = callers (shape, API, result class, flight " +
			"they wait for) x store request table; the reference model knows only request contents, never the collapse key. " +
			"Part D (configurations part=D): the same enumeration as part A on a store whose connection is not ready: additional environment events R (connection becomes " +
			"ready; default event, enabled at every point until it happened) and DB (the dial budget of the batch that waits for the connection elapses; deviation), " +
			"with submissions of every variant, T<i>, C<i>, AA, X; states there additionally contain: connection withheld, a batch waiting in waitConnReady, budget elapsed, " +
			"which calls gave up before their request was written; non-trivial there = a deviation event (T, C, DB, X) happened while a call was in flight with its " +
			"request not yet written and the connection not ready (coverage.part_D counts them per event kind)",
		"samples": samples.List(),
		"bounds": map[string]any{"configurations": cfgNames, "split_depth": "3 (5 with 4 callers; part C: 2, 3 with >= 3 callers)", "worker_processes": nproc,
			"part_C_grids": partCGrids(cfgs)},
		"per_configuration": tot.perCfg,
		"part_B":            tot.partB,
		"part_C":            tot.partC,
		"part_D":            tot.partD,
		"healthy_store_oracle": map[string]any{
			"slot_accounting_evaluations":                   tot.acctChecks,
			"request_never_sent_evaluations_at_submissions": tot.sendChecks,
			"drain_events":                                  tot.drainEvents,
			"probe_calls":                                   tot.probes,
			"late_answers_to_abandoned_requests":            tot.lateAnswers,
			"executions_with_late_answer":                   tot.execLate,
			"executions_with_late_answer_then_further_call": tot.execLateFollow,
			"executions_with_at_least_limit_late_answers_then_further_call": tot.execLateFull,
		},
		"distinct_outcomes": len(tot.outcomes),
		"observations":      observations,
		"pending_until_own_timeout_after_other_stream_failure": pendingOther,
		"outcomes":                     tot.outcomes,
		"executions_by_deviations":     tot.byF,
		"event_kinds_executed":         tot.kinds,
		"max_events_in_execution":      tot.maxDepth,
		"max_requests_in_one_batch":    tot.maxBatch,
		"inconclusive_executions":      inconclusive,
		"diverged_executions":          tot.diverged,
		"workers_replaced":             tot.poisoned,
		"lost_subtrees":                tot.lost,
		"stack_audits":                 tot.audits,
		"stack_audit_mismatch_samples": tot.mismatchSamples,
		"stack_audit_mismatches":       tot.mismatch,
		"client_error_logs":            elogs,
		"inconclusive_details":         tot.details,
	}, []string{
		"Level 1 only: interleavings of goroutines inside the client between two environment events are left to the Go scheduler (one P) and are not enumerated; requests are batched together only when the concurrency limit queues them (max_requests_in_one_batch).",
		"Quiescence = scheduler metrics (no runnable goroutine, none in a system call) under GOMAXPROCS=1, cross-checked by stack snapshots; gRPC keeps real timers (keepalive >= 10 s, reconnect back-off >= 100 ms after a broken connection) that do not fire in millisecond executions; executions longer than 0.5 s are discarded and repeated.",
		"Virtual time: the caller's time-out, the send loop's idle timer (vtime rewrite of client_batch.go, conn_batch.go, client_async.go) and waitConnReady's dial budget (context shim for client_batch.go) fire only when the explorer decides; the dial budget elapses whenever the system is quiet. Function bodies are unchanged.",
		"A call that stays pending after its stream failed is NOT a violation (the property only promises a return by the call's own time-out / cancellation / Close, which keep their own must-return rules; an asynchronous call never completed even by Close is a violation): it is counted under coverage.observations with the shortest sequence, as is the entry it leaves in the in-flight table. A stream failure must still not fail calls of other streams, and an answered call must return (own violation keys spurious-return/..., stuck/.../after-A).",
		"A livelock is reported only on positive evidence that does not depend on time: in 40 consecutive scheduler passes the client's no-available-connection counter moved and stack snapshots show the send loop as the only goroutine that is not blocked.",
		"Healthy-store oracle: a violation is claimed only where the environment withheld nothing - client open, no armed send failure, every needed stream alive, every request the server received answered (drain), the send loop woken by a submission / probe after the slot was free, and unbounded virtual time (the time-outs of waiting calls are never fired by the epilogue; a T event of the enumeration is a legitimate time-out and is judged by the time-out rule only). Free slots are computed from the server's table, never from the client's counters. NOT judged (observation queued_behind_limit_until_next_submission): the unchanged client re-examines calls queued behind max-concurrency-request-limit only when a new submission wakes the send loop - an answer that frees a slot does not; such a call waits for the next submission or its own time-out (an asynchronous one for ever if no further call to that store is made). Executions in which a stream failed after the stream of the other kind of its connection had failed (known unclaimed entry leak, findings/C18-candidate-fixes.diff item 1) are not judged by this oracle from that point on. With 2 connections and a finite limit only call-never-returns and slot-accounting are evaluated (which connection a call is queued for is not observable).",
		"Part C: the store below the collapse layer is scripted (it parks every request and echoes it in the response), so the collapse layer is explored on its own, not stacked on the batch client of parts A/B; its time-out timer is virtual (vtime rewrite of client_collapse.go). Sharing a flight is never demanded, only wrong sharing is judged: a submission that makes no request arrive at the store must have an identical request pending there (whatever its kind). Requests that differ only in the commit version (one pair in the grid) are outside the judged domain - a transaction has one fate - and are reported as observation requests_differing_only_in_commit_version_share_a_flight. The store address and the region epoch / peer of the request context are fixed. Events are separated by quiescence (level 1), so two submissions never race inside singleflight.",
		"Part D: 'connection not ready' is produced by a dialer that waits for the explorer's event R before it connects to the in-memory listener (gRPC stays in CONNECTING: a store that accepts the dial but does not complete the handshake); while it is withheld the dial budget of waitConnReady elapses only as event DB (not at quiescence), so callers' time-outs shorter than the dial budget are enumerated; gRPC's own connect time-out (5 s, real) does not fire inside an execution. Which not-yet-written calls a DB event fails is not prescribed (any of them may fail with the connection failure). The model does not know which calls are selected into the waiting batch and which are queued behind it (both classes are reached: first submission vs later ones). A later group waiting behind a blocked stream.Send (flow control) is NOT modelled. After Close with the connection withheld the course of the send loop depends on select's pseudo-random choice between the next queued entry and `closed` (fetchAllPendingRequests): such executions are repeated up to 10 times to see both courses, and a blocked call there is believed when one of up to 12 fully audited re-executions reproduces it (instead of 3 of 3).",
		"Batch policy 'basic' (no time based batch waiting); the server never answers on a stream of another connection or kind; stream drops do not break the connection; errors of waitConnReady (dial budget) count as connection failures.",
	})
}

package main

// explore.go - events, the observation snapshot, the oracle and the depth-first enumeration.

import (
	"context"
	"fmt"
	"hash/fnv"
	"io"
	"math"
	"os"
	"runtime"
	"sort"
	"strconv"
	"strings"
	"sync/atomic"
	"time"

	"github.com/pkg/errors"
	"github.com/tikv/client-go/v2/config"
	"github.com/tikv/client-go/v2/internal/client"
	"google.golang.org/grpc/status"
)

// Config is one exploration scenario (also stored in replay files).
type Config struct {
	Callers  int   `json:"callers"`
	MaxF     int   `json:"max_f"`    // bound on the number of non-default events
	Conns    uint  `json:"conns"`    // TiKVClient.GrpcConnectionCount
	Limit    int64 `json:"limit"`    // TiKVClient.MaxConcurrencyRequestLimit, 0 = default (unlimited)
	Variants bool  `json:"variants"` // high priority / forwarded / async submissions are events
	Stale    bool  `json:"stale"`    // stale and duplicate answers are events
	AddrX    bool  `json:"addr_x"`   // CloseAddr is an event
	// Part "" = part A (all environment events, see main.go). Part "B" = abandoned requests answered late,
	// followed by calls on a healthy store: the only deviation events are a caller giving up (C<i>, T<i>) and
	// the batch answer AA; submissions through the asynchronous API (S<i>a: no deadline at all) are default
	// events like plain ones; the server never drops a stream, no write fails, nothing is closed.
	// Part "D" = the first batches to a store whose connection is not ready: the store accepts the dial but the
	// connection becomes ready only at event R (default event, possible at every point); until then the send loop is
	// blocked in waitConnReady with the entries of its batch selected but not yet written, later submissions queue
	// behind it, and callers' time-outs (T<i>), cancellations (C<i>), the dial budget (DB) and Close (X) may happen first.
	// Part "C" = the request-collapse layer on a scripted store (collapse.go); Grid names its request shapes.
	Part string `json:"part,omitempty"`
	Grid string `json:"grid,omitempty"`
}

func (c Config) String() string {
	s := fmt.Sprintf("callers=%d,F<=%d,conns=%d,limit=%d,variants=%v,stale=%v,addrx=%v", c.Callers, c.MaxF, c.Conns, c.Limit, c.Variants, c.Stale, c.AddrX)
	if c.Part == "C" {
		return fmt.Sprintf("part=C,callers=%d,F<=%d,grid=%s", c.Callers, c.MaxF, c.Grid)
	}
	if c.Part != "" {
		s = "part=" + c.Part + "," + s
	}
	return s
}

// cost of an event in this configuration (see eventCost; in part B asynchronous submissions are default events).
func (c Config) cost(e string) int {
	if c.Part == "B" && len(e) > 2 && e[0] == 'S' && e[len(e)-1] == 'a' {
		return 0
	}
	return eventCost(e)
}

func applyConfig(c Config) {
	config.UpdateGlobal(func(conf *config.Config) {
		conf.TiKVClient.MaxBatchSize = 128
		conf.TiKVClient.GrpcConnectionCount = c.Conns
		// "basic" = no time based batching: the send loop never waits (on a real 100us timer) for more requests.
		conf.TiKVClient.BatchPolicy = config.BatchPolicyBasic
		conf.TiKVClient.MaxBatchWaitTime = 0
		if c.Limit > 0 {
			conf.TiKVClient.MaxConcurrencyRequestLimit = c.Limit
		} else {
			conf.TiKVClient.MaxConcurrencyRequestLimit = config.DefMaxConcurrencyRequestLimit
		}
	})
}

// cost of an event = 1 if it is a non-default (deviation) event. Plain submissions and answers
// to pending requests (in any order) are default events.
func eventCost(e string) int {
	switch {
	case strings.HasPrefix(e, "A:"), e == "R":
		return 0 // (R, part D: the connection becomes ready - the default course of the environment, at any point)
	case strings.HasPrefix(e, "S"):
		if strings.IndexByte(e, ':') > 0 {
			return 0 // part C: which request and which API a caller uses is part of the enumeration, not a deviation
		}
		if c := e[len(e)-1]; c >= '0' && c <= '9' {
			return 0
		}
		return 1
	}
	return 1
}

// ---------- observation ----------

type callerObs struct {
	Submitted bool
	Returns   int
	Value     string
	Err       error
	Panicked  string
	NoResp    bool
}

type reqObs struct {
	reqRec
	Alive bool   // its stream is alive
	Kind  string // stream kind: d<connIdx> / f<connIdx>
}

type streamObs struct {
	Idx   int
	Kind  string
	Alive bool
}

type obs struct {
	Callers []callerObs
	Reqs    []reqObs
	Streams []streamObs
	Batches int
}

func (w *world) observe() obs {
	var o obs
	w.mu.Lock()
	for _, c := range w.callers {
		o.Callers = append(o.Callers, callerObs{c.submitted, c.returns, c.value, c.err, c.panicked, c.noResp})
	}
	w.mu.Unlock()
	s := w.srv
	s.mu.Lock()
	for _, st := range s.streams {
		k := "d"
		if st.fwd != "" {
			k = "f"
		}
		k += st.connIdx
		if st.gen > 0 {
			k += "g" + strconv.Itoa(int(st.gen)) // pool generation: a later pool is another connection
		}
		o.Streams = append(o.Streams, streamObs{st.idx, k, st.alive})
	}
	for _, r := range s.reqs {
		o.Reqs = append(o.Reqs, reqObs{*r, o.Streams[r.Stream].Alive, o.Streams[r.Stream].Kind})
	}
	o.Batches = s.batches
	s.mu.Unlock()
	return o
}

func (o *obs) liveStream(kind string) (int, int) {
	idx, n := -1, 0
	for _, s := range o.Streams {
		if s.Alive && s.Kind == kind {
			idx = s.Idx
			n++
		}
	}
	return idx, n
}

func (o *obs) inflight(i int) bool { return o.Callers[i].Submitted && o.Callers[i].Returns == 0 }

func ownerOf(payload string) int {
	if len(payload) >= 2 && payload[0] == 'c' {
		if n, err := strconv.Atoi(payload[1:]); err == nil {
			return n
		}
	}
	return -1
}

// enabled lists the events possible in the observed state, default events first (answers oldest
// first, then the next submission), deviations after them, in a canonical order.
func (w *world) enabled(o *obs, budget int) []string {
	var out []string
	next := -1
	anyInflight := false
	for i := range o.Callers {
		if !o.Callers[i].Submitted && next < 0 {
			next = i
		}
		if o.inflight(i) {
			anyInflight = true
		}
	}
	if w.closed {
		// Everything is shut down; the remaining callers just observe the closed client.
		if next >= 0 {
			out = append(out, fmt.Sprintf("S%d", next))
		}
		return out
	}
	pendingBy := map[int][]reqObs{}
	for _, r := range o.Reqs {
		if r.Alive && r.Answers == 0 {
			out = append(out, "A:"+r.Payload)
			pendingBy[r.Stream] = append(pendingBy[r.Stream], r)
		}
	}
	if next >= 0 {
		out = append(out, fmt.Sprintf("S%d", next))
	}
	if w.cfg.Part == "B" {
		if next >= 0 {
			out = append(out, fmt.Sprintf("S%da", next))
		}
		if budget <= 0 {
			return out
		}
		for _, s := range o.Streams {
			if s.Alive && len(pendingBy[s.Idx]) >= 2 {
				out = append(out, "AA:"+s.Kind)
			}
		}
		for i := range o.Callers {
			if o.inflight(i) {
				out = append(out, fmt.Sprintf("C%d", i))
				if w.callers[i].variant != vAsync {
					out = append(out, fmt.Sprintf("T%d", i))
				}
			}
		}
		return out
	}
	if w.cfg.Part == "D" {
		if w.withheld {
			out = append(out, "R")
		}
		if budget <= 0 {
			return out
		}
		if next >= 0 && w.cfg.Variants {
			for _, v := range []int{vHigh, vFwd, vAsync} {
				out = append(out, fmt.Sprintf("S%d%s", next, variantTag[v]))
			}
		}
		for _, s := range o.Streams {
			if s.Alive && len(pendingBy[s.Idx]) >= 2 {
				out = append(out, "AA:"+s.Kind)
			}
		}
		for i := range o.Callers {
			if o.inflight(i) {
				out = append(out, fmt.Sprintf("C%d", i))
				if w.callers[i].variant != vAsync {
					out = append(out, fmt.Sprintf("T%d", i))
				}
			}
		}
		if w.withheld && w.ctl.pendingWith(dialBudget) > 0 {
			out = append(out, "DB")
		}
		if anyInflight || next >= 0 {
			out = append(out, "X")
		}
		return out
	}
	if budget <= 0 || (next < 0 && !anyInflight && len(out) == 0) {
		return out
	}
	if next >= 0 && w.cfg.Variants {
		for _, v := range []int{vHigh, vFwd, vAsync} {
			out = append(out, fmt.Sprintf("S%d%s", next, variantTag[v]))
		}
	}
	for _, s := range o.Streams {
		if s.Alive && len(pendingBy[s.Idx]) >= 2 {
			out = append(out, "AA:"+s.Kind)
		}
	}
	if w.cfg.Stale {
		for _, r := range o.Reqs {
			if (r.Answers > 0 || !r.Alive) && r.Stale == 0 {
				if _, n := o.liveStream(r.Kind); n == 1 {
					out = append(out, "A!:"+r.Payload)
				}
			}
		}
	}
	for _, s := range o.Streams {
		if s.Alive {
			out = append(out, "D:"+s.Kind)
		}
	}
	for i := range o.Callers {
		if o.inflight(i) {
			out = append(out, fmt.Sprintf("C%d", i))
			if w.callers[i].variant != vAsync {
				out = append(out, fmt.Sprintf("T%d", i))
			}
		}
	}
	if next >= 0 && atomic.LoadInt32(&w.failNextSend) == 0 {
		out = append(out, "NS") // only useful when a submission can follow
	}
	out = append(out, "X")
	if w.cfg.AddrX {
		out = append(out, "XA")
	}
	return out
}

// expectation of one event: which callers must (and may) return because of it.
type expect struct {
	must   map[int]string // caller -> required result class ("ok", "timeout", "canceled", "closed|failure", "failure")
	may    map[int]string // caller -> result class it may (but need not) complete with because of the event
	reason string
	shape  string // refines the violation key of a call that stays blocked
}

var errNotEnabled = fmt.Errorf("event not enabled")

// perform executes one event (without waiting) and says what the property requires of it.
func (w *world) perform(o *obs, e string) (expect, error) {
	ex := expect{must: map[int]string{}, may: map[int]string{}}
	findReq := func(p string) *reqObs {
		for i := range o.Reqs {
			if o.Reqs[i].Payload == p {
				return &o.Reqs[i]
			}
		}
		return nil
	}
	send := func(streamIdx int, c srvCmd) error {
		st := w.srv.streams[streamIdx]
		select {
		case st.cmd <- c:
			return nil
		default:
			return fmt.Errorf("server command queue full")
		}
	}
	w.heldBefore = w.withheld && !w.closed
	if w.withheld && !w.closed && e != "R" && e[0] != 'S' {
		for i := range o.Callers { // (coverage) an event hits calls that are in flight but not written: selected into the blocked batch or queued behind it
			if o.inflight(i) && findReq(w.callers[i].payload()) == nil {
				w.heldAtStep++
			}
		}
	}
	switch {
	case e == "R":
		if !w.withheld || w.closed {
			return ex, errNotEnabled
		}
		w.withheld = false
		close(w.readyCh)
		ex.reason = "the connection became ready: that completes nobody (the requests are written now)"
	case e == "DB":
		if !w.withheld || w.closed || w.ctl.pendingWith(dialBudget) == 0 {
			return ex, errNotEnabled
		}
		// The connection did not become ready within the dial budget: a connection failure, which may end any call
		// that is in flight and not yet written (the property does not say which of them are in the batch that gives up).
		for i := range o.Callers {
			if o.inflight(i) && findReq(w.callers[i].payload()) == nil {
				ex.may[i] = "failure"
			}
		}
		w.dialExpired = true
		ex.reason = "the connection did not become ready within the dial budget"
		dialFires++
		w.ctl.fireByDuration(dialBudget)
	case e == "NS":
		if w.closed || atomic.LoadInt32(&w.failNextSend) != 0 {
			return ex, errNotEnabled
		}
		atomic.StoreInt32(&w.failNextSend, 1)
		w.sendFailArmed = true
		ex.reason = "arming a send failure completes nobody"
	case strings.HasPrefix(e, "S"):
		body := e[1:]
		variant := vPlain
		switch body[len(body)-1] {
		case 'h':
			variant, body = vHigh, body[:len(body)-1]
		case 'f':
			variant, body = vFwd, body[:len(body)-1]
		case 'a':
			variant, body = vAsync, body[:len(body)-1]
		}
		i, err := strconv.Atoi(body)
		if err != nil || i < 0 || i >= len(w.callers) || w.callers[i].submitted {
			return ex, errNotEnabled
		}
		if w.closed {
			ex.must[i] = "closed"
			ex.reason = "a call on a closed client must fail at once"
		}
		if !w.closed && atomic.LoadInt32(&w.failNextSend) != 0 {
			// if this submission is written now, the write fails and the call must end with that failure
			// (with a concurrency limit it may be queued instead and stay pending)
			ex.may[i] = "failure"
			for j := range o.Callers { // calls still queued in the client are written in the same batch
				if o.inflight(j) && findReq(w.callers[j].payload()) == nil {
					ex.may[j] = "failure"
				}
			}
			ex.reason = "the batch could not be written to the stream"
		}
		w.submit(w.callers[i], variant)
	case strings.HasPrefix(e, "A:"):
		r := findReq(e[2:])
		if r == nil || !r.Alive || r.Answers != 0 {
			return ex, errNotEnabled
		}
		if i := ownerOf(r.Payload); i >= 0 && i < len(o.Callers) && o.inflight(i) {
			ex.must[i] = "ok"
			ex.reason = "the server answered the call's request on its live stream"
		}
		w.srv.mu.Lock()
		w.srv.reqs[indexOfReq(w.srv.reqs, r.Payload)].Answers++
		w.srv.mu.Unlock()
		if err := send(r.Stream, srvCmd{resp: echoResp(&r.reqRec)}); err != nil {
			return ex, err
		}
	case strings.HasPrefix(e, "AA:"):
		idx, n := o.liveStream(e[3:])
		if n != 1 {
			return ex, errNotEnabled
		}
		var rs []*reqRec
		w.srv.mu.Lock()
		for _, r := range w.srv.reqs {
			if r.Stream == idx && r.Answers == 0 {
				r.Answers++
				cp := *r
				rs = append(rs, &cp)
			}
		}
		w.srv.mu.Unlock()
		if len(rs) < 2 {
			return ex, errNotEnabled
		}
		for l, r := 0, len(rs)-1; l < r; l, r = l+1, r-1 { // newest first: position != arrival order
			rs[l], rs[r] = rs[r], rs[l]
		}
		for _, r := range rs {
			if i := ownerOf(r.Payload); i >= 0 && i < len(o.Callers) && o.inflight(i) {
				ex.must[i] = "ok"
			}
		}
		ex.reason = "the server answered all pending requests of the stream in one message"
		if err := send(idx, srvCmd{resp: echoResp(rs...)}); err != nil {
			return ex, err
		}
	case strings.HasPrefix(e, "A!:"):
		r := findReq(e[3:])
		if r == nil || !(r.Answers > 0 || !r.Alive) || r.Stale != 0 {
			return ex, errNotEnabled
		}
		idx, n := o.liveStream(r.Kind)
		if n != 1 {
			return ex, errNotEnabled
		}
		w.srv.mu.Lock()
		w.srv.reqs[indexOfReq(w.srv.reqs, r.Payload)].Stale++
		w.srv.mu.Unlock()
		ex.reason = "a response for an already answered / failed request id must be ignored"
		if err := send(idx, srvCmd{resp: echoResp(&r.reqRec)}); err != nil {
			return ex, err
		}
	case strings.HasPrefix(e, "D:"):
		idx, n := o.liveStream(e[2:])
		if n != 1 {
			return ex, errNotEnabled
		}
		for _, r := range o.Reqs {
			if r.Stream == idx && r.Answers == 0 {
				if i := ownerOf(r.Payload); i >= 0 && i < len(o.Callers) && o.inflight(i) {
					ex.must[i] = "failure"
				}
			}
		}
		ex.reason = "the stream failed: every call pending on it (and no other) must fail"
		// Shape of the case: is this the first stream of its connection to fail, or did a stream of the
		// other kind (direct / forwarded) of the same connection fail before?
		ex.shape = "/first-stream-failure-of-the-connection"
		kind := e[2:]
		for k := range w.droppedKinds {
			if k[1:] == kind[1:] && k[0] != kind[0] {
				ex.shape = "/after-a-stream-of-the-other-kind-failed-on-the-connection"
				// Known, documented and not claimed (findings/C18-candidate-fixes.diff, item 1): the recv loop that
				// loses the epoch CAS re-creates its stream without failing its own pending entries; they stay in
				// the in-flight table. The healthy-store oracle does not judge the rest of such an execution.
				w.knownLeak = true
			}
		}
		if w.droppedKinds == nil {
			w.droppedKinds = map[string]bool{}
		}
		w.droppedKinds[kind] = true
		w.dropped = true
		if err := send(idx, srvCmd{drop: true}); err != nil {
			return ex, err
		}
	case strings.HasPrefix(e, "C"), strings.HasPrefix(e, "T"):
		i, err := strconv.Atoi(e[1:])
		if err != nil || i < 0 || i >= len(w.callers) || !o.inflight(i) {
			return ex, errNotEnabled
		}
		c := w.callers[i]
		if e[0] == 'C' {
			c.cancelled = true
			ex.must[i] = "canceled"
			ex.reason = "the caller's context was cancelled"
			c.cancel()
		} else {
			if c.variant == vAsync || w.ctl.pendingWith(c.timeout) != 1 {
				return ex, errNotEnabled
			}
			c.timedOut = true
			ex.must[i] = "timeout"
			ex.reason = "the caller's time-out elapsed"
			w.ctl.fireByDuration(c.timeout)
		}
	case e == "X" || e == "XA":
		if w.closed || (e == "XA" && !w.cfg.AddrX) {
			return ex, errNotEnabled
		}
		for i := range o.Callers {
			if o.inflight(i) {
				ex.must[i] = "closed|failure"
			}
		}
		ex.reason = "the connection pool was closed: no call may stay blocked"
		if w.heldBefore {
			ex.shape = "/while-connection-not-ready" // (part D) calls selected into the batch that waits for the connection / queued behind it
			w.raceSite = true
		}
		cli := w.cli
		atomic.AddInt32(&w.closeCalls, 1)
		if e == "X" {
			w.closed = true
			go func() { cli.Close(); atomic.AddInt32(&w.closeDone, 1) }()
		} else {
			w.addrClosed++
			atomic.AddInt32(&w.srv.gen, 1)
			go func() { cli.CloseAddr(storeAddr); atomic.AddInt32(&w.closeDone, 1) }()
		}
	default:
		return ex, errNotEnabled
	}
	return ex, nil
}

func indexOfReq(rs []*reqRec, payload string) int {
	for i, r := range rs {
		if r.Payload == payload {
			return i
		}
	}
	return -1
}

// ---------- oracle ----------

type viol struct {
	Key  string `json:"key"`
	What string `json:"what"`
	At   int    `json:"at"` // number of events executed when it was detected (the counterexample is that prefix)
}

func errClass(err error) string {
	if err == nil {
		return "ok"
	}
	cause := errors.Cause(err)
	msg := err.Error()
	switch {
	case cause == context.DeadlineExceeded:
		if strings.Contains(msg, "wait recvLoop timeout") || strings.Contains(msg, "wait sendLoop") {
			return "timeout" // the call's own time-out (sendBatchRequest)
		}
		return "failure" // waitConnReady gave up: the connection did not become ready within the dial budget
	case cause == context.Canceled:
		return "canceled"
	case strings.Contains(msg, "batchConn closed"), strings.Contains(msg, "batch client closed"), strings.Contains(msg, "rpcClient is closed"):
		return "closed"
	case cause == io.EOF, strings.Contains(msg, "no available connections"):
		return "failure"
	}
	if st, ok := status.FromError(cause); ok && st != nil {
		return "failure"
	}
	return "other"
}

func eventKind(e string) string {
	if i := strings.IndexByte(e, ':'); i >= 0 {
		if e[0] == 'S' { // part C: S<i>:<shape> / S<i>a:<shape>
			if e[i-1] == 'a' {
				return "Sa"
			}
			return "S"
		}
		return e[:i]
	}
	if e == "X" || e == "XA" || e == "final-close" || e == "NS" || e == "R" || e == "DB" {
		return e
	}
	k := e[:1]
	if k == "S" {
		if c := e[len(e)-1]; c < '0' || c > '9' {
			k += string(c)
		}
	}
	return k
}

// check compares the observations before and after one event with what the property says.
func (w *world) check(before, after *obs, e string, ex expect) []viol {
	var vs []viol
	kind := eventKind(e)
	add := func(key, what string) { vs = append(vs, viol{Key: key, What: what}) }
	for i := range after.Callers {
		b, a := before.Callers[i], after.Callers[i]
		c := w.callers[i]
		tag := "sync"
		if c.variant == vAsync {
			tag = "async"
		}
		if a.Panicked != "" && b.Panicked == "" {
			// The class of the case: which event, and how far the call's request had got (the server's table says whether
			// it was written; before that it is queued in the client or selected into a batch that waits for its stream).
			where := "/request-written-to-the-stream"
			if !hasReq(after, c.payload()) {
				where = "/request-not-yet-written"
				if w.cfg.Part == "D" && w.heldBefore {
					where += ":connection-not-ready"
				}
			}
			add("panic/caller/"+tag+"/after-"+kind+where, fmt.Sprintf("caller %d panicked in its own goroutine after event %s instead of returning (%s): %s", i, e, ex.reason, a.Panicked))
			continue
		}
		if a.Returns > 1 && a.Returns > b.Returns {
			add("double-return/"+tag+"/after-"+kind, fmt.Sprintf("call of caller %d completed %d times (event %s)", i, a.Returns, e))
			continue
		}
		want, must := ex.must[i]
		newly := b.Returns == 0 && a.Returns >= 1
		if must && !newly && a.Returns == 0 {
			if kind == "D" {
				// Not a violation: the property only promises that the call returns (once, with its own
				// response or an allowed error) by its own time-out / cancellation / Close, and those events
				// keep their own "must return" rules (asynchronous calls: cancellation and Close). The
				// situation is counted and reported in the evidence as an observation.
				name := "pending_until_own_timeout_after_other_stream_failure"
				if ex.shape == "/first-stream-failure-of-the-connection" {
					name = "pending_after_first_stream_failure_of_the_connection"
				}
				w.notes = append(w.notes, viol{Key: name + "/" + tag, What: fmt.Sprintf("caller %d stays pending after event %s (its stream failed)", i, e)})
				c.pendingAfterDrop = true
				continue
			}
			add("stuck/"+tag+"/after-"+kind+ex.shape, fmt.Sprintf("caller %d is still blocked after event %s (%s)", i, e, ex.reason))
			c.tainted = true
			continue
		}
		if !newly {
			continue
		}
		if a.NoResp {
			add("no-response-no-error/"+tag+"/after-"+kind, fmt.Sprintf("caller %d completed with neither a response nor an error (event %s)", i, e))
			continue
		}
		if mw, ok := ex.may[i]; ok && !must {
			want, must = mw, true
		}
		if (c.tainted || c.pendingAfterDrop) && !must {
			// The call was left pending by an earlier stream failure (or was already reported as blocked);
			// it may be released later by an unrelated event (a later failure of the re-created stream, a
			// stale answer that still finds its entry). What it gets must still be its own response or an
			// error of an allowed class.
			if cls := errClass(a.Err); cls == "ok" && a.Value != c.payload() {
				add("misdelivery/"+tag+"/after-"+kind, fmt.Sprintf("caller %d (payload %q) got the response %q (event %s)", i, c.payload(), a.Value, e))
			} else if cls == "other" {
				add("error-class/"+tag+"/after-"+kind, fmt.Sprintf("caller %d returned an error outside the allowed classes: %v", i, a.Err))
			}
			continue
		}
		cls := errClass(a.Err)
		desc := cls
		if a.Err != nil {
			desc = fmt.Sprintf("%s (%v)", cls, a.Err)
		}
		if cls == "ok" && a.Value != c.payload() {
			add("misdelivery/"+tag+"/after-"+kind, fmt.Sprintf("caller %d (payload %q) got the response %q (event %s)", i, c.payload(), a.Value, e))
			continue
		}
		if cls == "other" {
			add("error-class/"+tag+"/after-"+kind, fmt.Sprintf("caller %d returned an error outside the allowed classes: %v", i, a.Err))
			continue
		}
		if !must {
			add("spurious-return/"+tag+"/"+cls+"/after-"+kind, fmt.Sprintf("caller %d returned %s although event %s does not concern its call", i, desc, e))
			continue
		}
		// the error names a cause: that cause must have happened to this call
		okCause := true
		switch cls {
		case "timeout":
			okCause = c.timedOut
		case "canceled":
			okCause = c.cancelled
		case "closed":
			okCause = w.closed || w.addrClosed > 0
		case "failure":
			okCause = w.dropped || w.closed || w.addrClosed > 0 || w.sendFailArmed || w.dialExpired
		}
		if !okCause {
			add("uncaused-error/"+tag+"/"+cls+"/after-"+kind, fmt.Sprintf("caller %d returned %s but no such event happened to it", i, desc))
			continue
		}
		allowed := false
		for _, wcls := range strings.Split(want, "|") {
			if wcls == cls {
				allowed = true
			}
		}
		if !allowed {
			add("wrong-result/"+tag+"/"+cls+"-instead-of-"+want+"/after-"+kind, fmt.Sprintf("caller %d returned %s after event %s; expected %s (%s)", i, desc, e, want, ex.reason))
		}
	}
	return vs
}

// ---------- oracle for a healthy store (late answers to abandoned requests, calls that follow) ----------
//
// Rule (from the property text "every call returns exactly once - with the response to its own request, or
// with an error"): a call may stay without result only while the environment withholds something from it.
// The environment of this harness withholds nothing ("healthy store") when: the client is not closed, no
// armed send failure is pending, every stream the client needs is alive (the server re-accepts a stream at
// once; connections never break), and the server answers every request it has received (the explorer's
// default events do that, in every order). In that situation
//
//	(a) request-never-sent:healthy-stream - when the send loop is woken by a submission it must hand to the
//	    stream every queued call of high priority and, of the others, at least min(free slots, queued), where
//	    free slots = MaxConcurrencyRequestLimit - (requests written to a live stream and not yet answered); with
//	    the default limit: everything. The count of requests outstanding is taken from the SERVER's table (what
//	    it received and has not answered on a live stream), never from the client's own counters; a request whose
//	    caller gave up (time-out, cancel) holds its slot exactly until the server's answer arrives.
//	(b) call-never-returns:healthy-stream - at the end of an execution (all callers submitted, every request
//	    answered) the epilogue gives every remaining call every chance: it wakes the send loop with a probe call
//	    of high priority (which by-passes the limit), answers everything the server receives, and repeats while
//	    that makes progress; the time-outs of the remaining calls are never fired (unbounded virtual time). A
//	    call that is still without result afterwards is a violation.
//	(c) slot-accounting:healthy-stream (white box, early and local) - at every quiescence the client's in-flight
//	    table and `sent` counter must equal the number of requests outstanding by the server's table. With a
//	    finite limit every unit of difference is a lost (or invented) slot: violation; with the default limit it
//	    is only reported as an observation (nothing a caller can see depends on it).
//
// NOT judged: the unchanged client re-examines requests queued behind the limit only when a new submission
// wakes the send loop (an answer that frees a slot does not wake it). A queued call that nobody wakes stays
// queued until its own time-out; that is counted as observation queued_behind_limit_until_next_submission and
// is the reason why (a) is evaluated at submissions only and (b) uses probe calls. Executions containing the
// known unclaimed leak (a stream failing after the stream of the other kind of its connection failed) are
// not judged from that point on.

func outstandingAt(o *obs) int {
	n := 0
	for _, r := range o.Reqs {
		if r.Alive && r.Answers == 0 {
			n++
		}
	}
	return n
}

func hasReq(o *obs, payload string) bool {
	for i := range o.Reqs {
		if o.Reqs[i].Payload == payload {
			return true
		}
	}
	return false
}

// modelAvailable is the specification of the limit: slots that are free when `out` requests are outstanding.
func modelAvailable(limit int64, out int) int64 {
	if limit <= 0 {
		return math.MaxInt64
	}
	if int64(out) >= limit {
		return 0
	}
	return limit - int64(out)
}

func (w *world) healthyStore() bool {
	if w.closed || atomic.LoadInt32(&w.failNextSend) != 0 || w.knownLeak || w.withheld {
		return false // (withheld, part D: the environment withholds the connection itself)
	}
	for _, c := range w.callers {
		if c.tainted {
			return false
		}
	}
	return true
}

func callerTag(c *caller) string {
	if c.variant == vAsync {
		return "async"
	}
	return "sync"
}

func (w *world) storeFacts(o *obs) string {
	ans, live := 0, 0
	for _, r := range o.Reqs {
		if r.Alive {
			live++
			if r.Answers > 0 {
				ans++
			}
		}
	}
	return fmt.Sprintf("client open, no fault pending, %d live stream(s), the server has answered %d of the %d requests it received on live streams", func() int {
		n := 0
		for _, s := range o.Streams {
			if s.Alive {
				n++
			}
		}
		return n
	}(), ans, live)
}

// checkHealthy evaluates rules (a) and (c) after one event.
func (w *world) checkHealthy(before, after *obs, e string) []viol {
	if !w.healthyStore() {
		return nil
	}
	var vs []viol
	kind := eventKind(e)
	// (c) white box
	entries, sent := client.VerifInflight(w.cli, storeAddr)
	out := outstandingAt(after)
	w.acctChecks++
	if (entries != out || sent != int64(out)) && !w.acctReported && !noWhiteBox {
		w.acctReported = true // (the difference stays for the rest of the execution: reported once)
		shape := "in-flight-count-above-requests-outstanding"
		if sent < int64(out) || entries < out {
			shape = "in-flight-count-below-requests-outstanding"
		}
		what := fmt.Sprintf("after event %s the client counts %d entr(y/ies) in its in-flight table and sent=%d, but %d request(s) are written to a live stream and not yet answered (%s)",
			e, entries, sent, out, w.storeFacts(after))
		if w.cfg.Limit > 0 {
			vs = append(vs, viol{Key: "slot-accounting:healthy-stream/" + shape + "/after-" + kind, What: what + fmt.Sprintf("; every unit of difference is a slot of max-concurrency-request-limit=%d", w.cfg.Limit)})
		} else {
			w.notes = append(w.notes, viol{Key: "in_flight_table_differs_from_requests_outstanding/" + shape, What: what + " (default limit: nothing a caller can observe depends on it)"})
		}
	}
	// (a) only a submission wakes the send loop
	if kind[0] != 'S' || !(w.cfg.Conns <= 1 || w.cfg.Limit <= 0) {
		return vs
	}
	var queued []int
	for i := range after.Callers {
		if !after.Callers[i].Submitted || hasReq(before, w.callers[i].payload()) {
			continue
		}
		if before.Callers[i].Submitted && before.Callers[i].Returns > 0 {
			continue // gave up (or failed) while queued
		}
		queued = append(queued, i)
	}
	avail := modelAvailable(w.cfg.Limit, outstandingAt(before))
	var normals, sentNormals int64
	var unsentHigh, unsentNormal []int
	for _, i := range queued {
		done := hasReq(after, w.callers[i].payload()) || after.Callers[i].Returns > 0
		if w.callers[i].variant == vHigh {
			if !done {
				unsentHigh = append(unsentHigh, i)
			}
			continue
		}
		normals++
		if done {
			sentNormals++
		} else {
			unsentNormal = append(unsentNormal, i)
		}
	}
	w.sendChecks++
	need := min(avail, normals)
	if len(unsentHigh) > 0 || sentNormals < need {
		who := append(append([]int{}, unsentHigh...), unsentNormal...)
		lim := "default (unlimited)"
		if w.cfg.Limit > 0 {
			lim = strconv.FormatInt(w.cfg.Limit, 10)
		}
		vs = append(vs, viol{Key: "request-never-sent:healthy-stream/" + callerTag(w.callers[who[0]]), What: fmt.Sprintf(
			"submission %s woke the send loop, but the request(s) of caller(s) %v were not handed to the stream: limit %s, %d request(s) outstanding at the server => %d free slot(s), %d call(s) of normal priority queued, only %d written (%d of high priority not written); %s",
			e, who, lim, outstandingAt(before), min(avail, int64(1<<30)), normals, sentNormals, len(unsentHigh), w.storeFacts(after))})
		w.starved = true
	}
	return vs
}

// noWhiteBox (VERIF_C18_NO_WHITEBOX=1, diagnostics): rule (c) is not evaluated, to see what the black-box rules find alone.
var noWhiteBox = os.Getenv("VERIF_C18_NO_WHITEBOX") != ""

// strictWake (VERIF_C18_STRICT_WAKE=1): see the drain epilogue in runOne. Off by default: the behaviour is reported as
// observation queued_behind_limit_until_next_submission (decision of the lead pending).
var strictWake = os.Getenv("VERIF_C18_STRICT_WAKE") != ""

// liveness classes: the observation model stays intact, the enumeration goes on next to such an execution.
func livenessKey(k string) bool {
	return strings.HasPrefix(k, "stuck/sync/") || strings.HasPrefix(k, "stuck/async/") ||
		strings.HasPrefix(k, "request-never-sent:healthy-stream/") || strings.HasPrefix(k, "call-never-returns:healthy-stream/") ||
		strings.HasPrefix(k, "slot-accounting:healthy-stream/") ||
		strings.HasPrefix(k, "collapse:stuck/") || strings.HasPrefix(k, "collapse:request-never-reached-store/")
}

func branchable(vs []viol) bool {
	for _, v := range vs {
		if !livenessKey(v.Key) {
			return false
		}
	}
	return true
}

// onlyStuck: a call that stays blocked (liveness) leaves the observation model intact, so the
// enumeration continues below such an execution; after any other violation it does not.
func onlyStuck(vs []viol) bool {
	for _, v := range vs {
		// (a difference in the slot accounting is local: the execution goes on, so that the calls that follow show
		// what a caller can see of it)
		// (part C: a request that never reached the store is reported at the submission; the execution goes on so that
		// the response its caller is handed later is judged too)
		if !strings.HasPrefix(v.Key, "stuck/sync/") && !strings.HasPrefix(v.Key, "stuck/async/") && !strings.HasPrefix(v.Key, "slot-accounting:healthy-stream/") &&
			!strings.HasPrefix(v.Key, "collapse:stuck/") && !strings.HasPrefix(v.Key, "collapse:request-never-reached-store/") {
			return false
		}
	}
	return true
}

// diagnoseNotQuiet: two reasons for not getting quiet are facts whatever the timing, and are
// reported as violations: a loop of the client that panics and restarts for ever (its recovered
// panics are in the log), and a send loop that spins through getClientAndSend without sending (the
// client's own "no available connection" counter, which moves at most once per batch in a sane run,
// advanced thousands of times during this single wait). Anything else is inconclusive (false).
func diagnoseNotQuiet(t *trace, e string, noAvailBefore float64) bool {
	n0 := len(t.Viol)
	blockedNote := ""
	if t.w != nil {
		o := t.w.observe()
		var bl []string
		for i := range o.Callers {
			if o.inflight(i) {
				tag := "sync"
				if t.w.callers[i].variant == vAsync {
					tag = "async"
				}
				bl = append(bl, fmt.Sprintf("caller %d (%s)", i, tag))
			}
		}
		if len(bl) > 0 {
			blockedNote = "never completed: " + strings.Join(bl, ", ") + "; "
		}
	}
	if n, msg := panicLogsSince(t.logMark); n > 0 {
		t.logMark += n
		t.Viol = append(t.Viol, viol{Key: "panic/client-goroutine/after-" + eventKind(e), What: fmt.Sprintf("the client recovered a panic after event %s: %s", e, msg)})
	} else if spins := noAvailCount() - noAvailBefore; spinDetected {
		t.Viol = append(t.Viol, viol{Key: "livelock/send-loop/after-" + eventKind(e), What: blockedNote + fmt.Sprintf(
			"after event %s the batch send loop spins for ever: it is the only goroutine that is not blocked and went through getClientAndSend without finding a usable connection %.0f times during one wait", e, spins)})
	}
	for i := n0; i < len(t.Viol); i++ {
		if e != "final-close" {
			t.Viol[i].At = len(t.Events)
		}
	}
	return len(t.Viol) > n0
}

// ---------- one execution ----------

type trace struct {
	Events          []string
	Enabled         [][]string // Enabled[k] = events enabled before Events[k]; one more entry for the final state
	Viol            []viol
	Obs             []viol // observations that are not violations (counted in the evidence)
	Inconclusive    string
	Diverged        bool
	States          []uint64
	Outcome         string
	MaxInflight     int
	MaxBatch        int
	InflightEntries int
	InflightSent    int64
	logMark         int
	TeardownFailed  bool
	w               *world
	Steps           int
	Drain           []string // events of the drain epilogue (not enumerated: derived from the final state)
	Probes          int      // probe calls submitted by the drain epilogue
	LateAnswers     int      // answers the server sent for requests whose caller had already returned (gave up)
	FollowUps       int      // submissions made after at least one such late answer
	AcctChecks      int
	SendChecks      int
	PartC           map[string]int // part C: counters / per-execution facts (0 or 1) for the coverage report
	RaceSite        bool           // part D: Close happened while calls waited behind the batch that waits for the connection (see raceDependent)
	HeldHits        int            // part D: (event, call) pairs: a deviation event happened while the call was in flight, not written, connection not ready
}

var stateDump map[string]struct{} // diagnostics (VERIF_C18_DUMPSTATES)

func stateHash(w *world, o *obs) uint64 {
	var sb strings.Builder
	for i, c := range o.Callers {
		fmt.Fprintf(&sb, "c%d:%v:%d:%d:", i, c.Submitted, w.callers[i].variant, c.Returns)
		if c.Returns > 0 {
			sb.WriteString(errClass(c.Err))
		}
		sb.WriteByte(';')
	}
	for _, r := range o.Reqs {
		fmt.Fprintf(&sb, "r%s:%d:%s:%v:%d:%d;", r.Payload, r.ID, r.Kind, r.Alive, r.Answers, r.Stale)
	}
	for _, s := range o.Streams {
		fmt.Fprintf(&sb, "s%s:%v;", s.Kind, s.Alive)
	}
	fmt.Fprintf(&sb, "x%v:%d:%d", w.closed, w.addrClosed, atomic.LoadInt32(&w.failNextSend))
	if w.cfg.Part == "D" {
		// implementation state the observation lacks: is the connection still withheld, is a batch waiting in
		// waitConnReady (its dial budget is armed), did a budget elapse, and which calls have already given up while
		// their request was not written (their entries still travel with the blocked batch / the queue)
		fmt.Fprintf(&sb, "|d%v:%d:%v", w.withheld, w.ctl.pendingWith(dialBudget), w.dialExpired)
		for i, c := range w.callers {
			fmt.Fprintf(&sb, ":%d%v%v", i, c.timedOut, c.cancelled)
		}
	}
	h := fnv.New64a()
	h.Write([]byte(sb.String()))
	if stateDump != nil {
		stateDump[sb.String()] = struct{}{}
	}
	return h.Sum64()
}

func outcomeOf(w *world, o *obs) string {
	parts := make([]string, len(o.Callers))
	for i, c := range o.Callers {
		switch {
		case !c.Submitted:
			parts[i] = "-"
		case c.Returns == 0:
			parts[i] = "blocked"
		default:
			parts[i] = errClass(c.Err)
		}
		parts[i] += variantTag[w.callers[i].variant]
	}
	return strings.Join(parts, ",")
}

// runOne executes prefix on a fresh client + server and, unless stopAtPrefix, continues with the
// first enabled event until nothing is enabled. It then runs the epilogues (drain of a healthy store:
// nobody may stay without result; Close: nobody may stay blocked) and tears the world down.
func runOne(cfg Config, prefix []string, stopAtPrefix bool) *trace {
	if cfg.Part == "C" {
		return runOneC(cfg, prefix, stopAtPrefix)
	}
	t := &trace{}
	applyConfig(cfg)
	t.logMark = panicLogCount()
	w := newWorld(cfg)
	t.w = w
	defer func() {
		defer func() {
			if execCount++; execCount%20 == 0 {
				runtime.GC() // (automatic collection is off, see workerMain)
			}
		}()
		t.AcctChecks, t.SendChecks = w.acctChecks, w.sendChecks
		t.HeldHits = w.heldAtStep
		t.RaceSite = w.raceSite
		t.w = nil
		if !w.teardown() {
			if t.Inconclusive == "" && len(t.Viol) == 0 {
				t.Inconclusive = fmt.Sprintf("no quiescence during teardown: busy: %s", busyGoroutines())
			}
			t.TeardownFailed = true
		}
	}()
	if !quiesce() {
		t.Inconclusive = "no quiescence after setup: busy: " + busyGoroutines()
		poisoned = true
		poisonedWhy = "not quiet after the setup of a fresh world: " + busyGoroutines()
		return t
	}
	o := w.observe()
	budget := cfg.MaxF
	checkPanics := func(e string) {
		if n, msg := panicLogsSince(t.logMark); n > 0 {
			t.logMark += n
			t.Viol = append(t.Viol, viol{Key: "panic/client-goroutine/after-" + eventKind(e), What: fmt.Sprintf("the client recovered a panic after event %s: %s", e, msg)})
		}
	}
	// step performs one event, waits for quiescence and applies the oracle; false = the execution ends here.
	// Events of the drain epilogue are not part of the enumerated sequence (a replay re-creates them).
	step := func(e string, drain bool) bool {
		noAvail := noAvailCount()
		ex, err := w.perform(&o, e)
		if err != nil {
			t.Diverged = true
			t.Inconclusive = fmt.Sprintf("event %s could not be performed: %v", e, err)
			return false
		}
		at := -1 // (a violation found in the drain epilogue is re-checked by a complete re-execution)
		if drain {
			t.Drain = append(t.Drain, e)
		} else {
			t.Events = append(t.Events, e)
			budget -= cfg.cost(e)
			at = len(t.Events)
		}
		n0 := len(t.Viol)
		defer func() {
			for i := n0; i < len(t.Viol); i++ {
				if t.Viol[i].At == 0 || drain {
					t.Viol[i].At = at
				}
			}
		}()
		if !w.settle() {
			if !diagnoseNotQuiet(t, e, noAvail) {
				t.Inconclusive = "no quiescence after event " + eventKind(e) + ": busy: " + busyGoroutines()
			}
			return false
		}
		if w.tooSlow() {
			t.Inconclusive = "execution exceeded its wall budget (timing assumption not guaranteed)"
			return false
		}
		if n := atomic.LoadInt32(&w.closeCalls); n != atomic.LoadInt32(&w.closeDone) {
			t.Viol = append(t.Viol, viol{Key: "stuck/close/after-" + eventKind(e), What: fmt.Sprintf("Close / CloseAddr did not return (event %s)", e)})
		}
		after := w.observe()
		t.Steps++
		t.Viol = append(t.Viol, w.check(&o, &after, e, ex)...)
		healthyViol := w.checkHealthy(&o, &after, e)
		t.Viol = append(t.Viol, healthyViol...)
		for _, n := range w.notes {
			n.At = at
			t.Obs = append(t.Obs, n)
		}
		w.notes = nil
		checkPanics(e)
		// coverage of the abandoned-request class
		if eventKind(e) == "A" || eventKind(e) == "AA" {
			for i := range after.Reqs {
				r := &after.Reqs[i]
				if r.Answers > 0 && (i >= len(o.Reqs) || o.Reqs[i].Answers == 0) {
					if j := ownerOf(r.Payload); j >= 0 && j < len(o.Callers) && o.Callers[j].Returns > 0 {
						t.LateAnswers++
					}
				}
			}
		}
		if e[0] == 'S' && t.LateAnswers > 0 && !drain {
			t.FollowUps++
		}
		o = after
		n := 0
		for i := range o.Callers {
			if o.inflight(i) {
				n++
			}
		}
		if n > t.MaxInflight {
			t.MaxInflight = n
		}
		for _, r := range o.Reqs {
			if r.BatchLen > t.MaxBatch {
				t.MaxBatch = r.BatchLen
			}
		}
		if !onlyStuck(t.Viol) {
			return false // the rest of the execution is not meaningful after a safety violation / is starved
		}
		return true
	}
	for k := 0; ; k++ {
		en := w.enabled(&o, budget)
		t.Enabled = append(t.Enabled, en)
		t.States = append(t.States, stateHash(w, &o))
		var e string
		if k < len(prefix) {
			e = prefix[k]
			found := false
			for _, x := range en {
				if x == e {
					found = true
				}
			}
			if !found {
				t.Diverged = true
				t.Inconclusive = fmt.Sprintf("replay diverged: %s not enabled at step %d (enabled: %v)", e, k, en)
				return t
			}
		} else {
			if stopAtPrefix || len(en) == 0 {
				break
			}
			e = en[0]
		}
		if !step(e, false) {
			return t
		}
	}
	t.Outcome = outcomeOf(w, &o)
	onlyAccounting := true
	for _, v := range t.Viol {
		if !strings.HasPrefix(v.Key, "slot-accounting:healthy-stream/") {
			onlyAccounting = false
		}
	}
	if !stopAtPrefix && onlyAccounting && w.healthyStore() {
		// Epilogue 1 (rule (b) of the healthy-store oracle): every call gets every chance.
		maxRounds := len(w.callers) + 1 // every round with a free slot gets at least one queued call written
		for round := 0; round <= maxRounds; round++ {
			for progress := true; progress; {
				progress = false
				for _, r := range o.Reqs {
					if r.Alive && r.Answers == 0 {
						if !step("A:"+r.Payload, true) {
							return t
						}
						progress = true
						break
					}
				}
			}
			var waiting []int
			for i := range o.Callers {
				if o.inflight(i) && !w.callers[i].pendingAfterDrop {
					waiting = append(waiting, i)
				}
			}
			if len(waiting) == 0 || round == maxRounds {
				for _, i := range waiting {
					how := "its request was never handed to the stream"
					if hasReq(&o, w.callers[i].payload()) {
						how = "its request was written and answered"
					}
					t.Viol = append(t.Viol, viol{Key: "call-never-returns:healthy-stream/" + callerTag(w.callers[i]), At: -1, What: fmt.Sprintf(
						"caller %d has no result at the end although nothing is withheld from it (%s; %s; %d probe call(s) of high priority were answered meanwhile; its time-out never fired: unbounded virtual time); drain: %v",
						i, how, w.storeFacts(&o), t.Probes, t.Drain)})
				}
				break
			}
			// wake the send loop: a probe call of high priority by-passes the limit and takes nobody's slot for long
			if round == 0 {
				// (observation, not judged: see the note at the healthy-store oracle)
				t.Obs = append(t.Obs, viol{Key: "queued_behind_limit_until_next_submission/" + callerTag(w.callers[waiting[0]]), At: len(t.Events), What: fmt.Sprintf(
					"caller(s) %v still queued at the end although every request is answered and slots of max-concurrency-request-limit=%d are free: the answer that frees a slot does not wake the send loop, only a later submission does (the drain's probe call)", waiting, w.cfg.Limit)})
			}
			if round == 0 && strictWake {
				// VERIF_C18_STRICT_WAKE=1: judge the state WITHOUT the help of a later submission. A call without
				// any deadline that is still queued now stays queued for ever unless somebody else calls the store.
				for _, i := range waiting {
					if w.callers[i].variant == vAsync {
						t.Viol = append(t.Viol, viol{Key: "call-never-returns:healthy-stream/async/queued-behind-limit-without-wake-up", At: -1, What: fmt.Sprintf(
							"asynchronous caller %d (no deadline) is still queued behind max-concurrency-request-limit=%d although every request is answered and a slot is free; nothing but a further submission to this store wakes the send loop (%s)",
							i, w.cfg.Limit, w.storeFacts(&o))})
					}
				}
				if len(t.Viol) > 0 {
					return t
				}
			}
			idx := len(w.callers)
			w.callers = append(w.callers, &caller{idx: idx, timeout: callerTimeout(idx)})
			o = w.observe()
			t.Probes++
			if !step(fmt.Sprintf("S%dh", idx), true) {
				return t
			}
		}
		if len(t.Viol) > 0 {
			return t
		}
	}
	t.InflightEntries, t.InflightSent = client.VerifInflight(w.cli, storeAddr)
	if !stopAtPrefix && t.InflightEntries > 0 {
		// observation only: a call that was left pending by a stream failure and then ended by its own
		// time-out / cancellation leaves its entry in the in-flight table (and `sent` incremented)
		for i, c := range w.callers {
			if c.pendingAfterDrop && o.Callers[i].Returns > 0 && (c.timedOut || c.cancelled) {
				t.Obs = append(t.Obs, viol{Key: "entry_left_in_flight_table_after_pending_call_ended", What: fmt.Sprintf(
					"at the end %d entr(y/ies) remain in batched, sent counter %d", t.InflightEntries, t.InflightSent), At: len(t.Events)})
				break
			}
		}
	}
	if stopAtPrefix {
		return t
	}
	// epilogue 2: after Close no call stays blocked
	if !w.closed {
		noAvail := noAvailCount()
		ex, err := w.perform(&o, "X")
		if err == nil {
			if !w.settle() {
				if !diagnoseNotQuiet(t, "final-close", noAvail) {
					t.Inconclusive = "no quiescence after the final Close"
				}
				return t
			}
			if w.tooSlow() {
				t.Inconclusive = "execution exceeded its wall budget (timing assumption not guaranteed)"
				return t
			}
			after := w.observe()
			t.Steps++
			for _, v := range w.check(&o, &after, "X", ex) {
				v.Key = strings.Replace(v.Key, "after-X", "after-final-close", 1)
				t.Viol = append(t.Viol, v)
			}
			if atomic.LoadInt32(&w.closeCalls) != atomic.LoadInt32(&w.closeDone) {
				t.Viol = append(t.Viol, viol{Key: "stuck/close/after-final-close", What: "the final Close did not return"})
			}
			checkPanics("final-close")
		}
	}
	return t
}

// ---------- depth-first enumeration ----------

type subtreeResult struct {
	Prefix         []string            `json:"prefix"`
	Executions     int                 `json:"executions"`
	Steps          int                 `json:"steps"`
	Events         int                 `json:"events"`
	Inconclusive   map[string]int      `json:"inconclusive,omitempty"`
	Diverged       int                 `json:"diverged"`
	Viol           map[string]violHit  `json:"viol,omitempty"`
	Obs            map[string]violHit  `json:"obs,omitempty"`
	States         []uint64            `json:"states"`
	Outcomes       map[string]int      `json:"outcomes"`
	NonTrivial     int                 `json:"nontrivial"`
	ByF            map[string]int      `json:"by_f"`
	MaxDepth       int                 `json:"max_depth"`
	MaxBatch       int                 `json:"max_batch"`
	EventKinds     map[string]int      `json:"event_kinds"`
	Samples        [][]string          `json:"samples,omitempty"`
	Frontier       [][]string          `json:"frontier,omitempty"`
	Spins          int64               `json:"spins"`
	Audits         int64               `json:"audits"`
	Mismatch       int64               `json:"mismatch"`
	Extra          map[string][]string `json:"extra,omitempty"`
	DrainEvents    int                 `json:"drain_events"`
	Probes         int                 `json:"probes"`
	LateAnswers    int                 `json:"late_answers"`
	ExecLate       int                 `json:"exec_late"`        // executions with >= 1 late answer to an abandoned request
	ExecLateFollow int                 `json:"exec_late_follow"` // ... followed by at least one further submission
	ExecLateFull   int                 `json:"exec_late_full"`   // ... with >= limit late answers (finite limit) and a further submission
	AcctChecks     int                 `json:"acct_checks"`
	SendChecks     int                 `json:"send_checks"`
	PartC          map[string]int      `json:"part_c,omitempty"`
	PartD          map[string]int      `json:"part_d,omitempty"`

	WallMs    int64    `json:"wall_ms"`
	SlowestMs int64    `json:"slowest_ms"`
	Slowest   []string `json:"slowest,omitempty"`
}

type violHit struct {
	What   string   `json:"what"`
	Count  int      `json:"count"`
	Events []string `json:"events"`
}

func newSubtreeResult(prefix []string) *subtreeResult {
	return &subtreeResult{Prefix: prefix, Inconclusive: map[string]int{}, Viol: map[string]violHit{}, Obs: map[string]violHit{}, Outcomes: map[string]int{},
		ByF: map[string]int{}, EventKinds: map[string]int{}}
}

func (r *subtreeResult) account(cfg Config, t *trace, states map[uint64]struct{}) {
	r.Executions++
	r.Steps += t.Steps
	r.Events += len(t.Events) + len(t.Drain)
	r.DrainEvents += len(t.Drain)
	r.Probes += t.Probes
	r.LateAnswers += t.LateAnswers
	r.AcctChecks += t.AcctChecks
	r.SendChecks += t.SendChecks
	if cfg.Part == "C" {
		if r.PartC == nil {
			r.PartC = map[string]int{}
		}
		r.PartC["executions"]++
		r.PartC["events"] += len(t.Events)
		for k, v := range t.PartC {
			r.PartC[k] += v
		}
	}
	if cfg.Part == "D" {
		if r.PartD == nil {
			r.PartD = map[string]int{}
		}
		r.PartD["executions"]++
		r.PartD["events"] += len(t.Events)
		r.PartD["deviation_events_x_calls_in_flight_not_written_while_connection_not_ready"] += t.HeldHits
		if t.HeldHits > 0 {
			r.PartD["executions_with_such_an_event"]++
		}
		seen := map[string]bool{}
		for k, e := range t.Events {
			if e == "R" {
				break
			}
			if ek := eventKind(e); !seen[ek] && k > 0 && e[0] != 'S' {
				seen[ek] = true
				r.PartD["executions_with_"+ek+"_before_ready"]++
			}
		}
	}
	if t.LateAnswers > 0 {
		r.ExecLate++
		if t.FollowUps > 0 {
			r.ExecLateFollow++
		}
		if cfg.Limit > 0 && int64(t.LateAnswers) >= cfg.Limit && t.FollowUps > 0 {
			r.ExecLateFull++
		}
	}
	for _, s := range t.States {
		states[s] = struct{}{}
	}
	if t.Diverged {
		r.Diverged++
	}
	if t.Inconclusive != "" {
		k := t.Inconclusive
		if i := strings.Index(k, ":"); i > 0 {
			if r.Extra == nil {
				r.Extra = map[string][]string{}
			}
			if len(r.Extra["inconclusive_details"]) < 5 {
				r.Extra["inconclusive_details"] = append(r.Extra["inconclusive_details"], fmt.Sprintf("%s [events %v]", k, t.Events))
			}
			k = k[:i]
		}
		r.Inconclusive[k]++
		return
	}
	seenObs := map[string]bool{}
	for _, v := range t.Obs {
		if seenObs[v.Key] {
			continue // count executions, not occurrences
		}
		seenObs[v.Key] = true
		h, ok := r.Obs[v.Key]
		evs := t.Events
		if v.At > 0 && v.At <= len(evs) {
			evs = evs[:v.At]
		}
		if !ok || simpler(evs, h.Events) {
			h.What, h.Events = v.What, append([]string{}, evs...)
		}
		h.Count++
		r.Obs[v.Key] = h
	}
	for _, v := range t.Viol {
		h, ok := r.Viol[v.Key]
		evs := t.Events
		if v.At > 0 && v.At <= len(evs) {
			evs = evs[:v.At]
		}
		if !ok || simpler(evs, h.Events) {
			h.What, h.Events = v.What, append([]string{}, evs...)
		}
		h.Count++
		r.Viol[v.Key] = h
	}
	if !onlyStuck(t.Viol) {
		return
	}
	r.Outcomes[t.Outcome]++
	f := 0
	for _, e := range t.Events {
		f += cfg.cost(e)
		r.EventKinds[eventKind(e)]++
	}
	for _, e := range t.Drain {
		r.EventKinds["drain:"+eventKind(e)]++
	}
	r.ByF[strconv.Itoa(f)]++
	if cfg.Part == "D" {
		if t.HeldHits > 0 { // part D: a deviation event hit a call whose request was not yet written while the connection was not ready
			r.NonTrivial++
		}
	} else if f > 0 || t.MaxInflight >= 2 {
		r.NonTrivial++
	}
	if len(t.Events) > r.MaxDepth {
		r.MaxDepth = len(t.Events)
	}
	if t.MaxBatch > r.MaxBatch {
		r.MaxBatch = t.MaxBatch
	}
	if len(r.Samples) < 3 && f > 0 {
		r.Samples = append(r.Samples, append(append([]string{}, t.Events...), "=> "+t.Outcome))
	}
}

// simpler orders counterexamples: fewer events, then fewer deviations, then lexicographically.
func simpler(a, b []string) bool {
	if len(a) != len(b) {
		return len(a) < len(b)
	}
	ca, cb := 0, 0
	for i := range a {
		ca += eventCost(a[i])
		cb += eventCost(b[i])
	}
	if ca != cb {
		return ca < cb
	}
	return strings.Join(a, " ") < strings.Join(b, " ")
}

// runChecked runs one execution; a diverged or inconclusive one is retried (fresh world) twice.
// A violation is believed only if the same event prefix violates the same rule again in each of
// three further executions that audit every quiescence with a full stack snapshot; otherwise the
// execution is inconclusive (an observation taken too early can therefore not become an alarm).
func runChecked(cfg Config, prefix []string, stop bool) *trace {
	var t *trace
	for try := 0; try < 5; try++ {
		t = runOne(cfg, prefix, stop)
		if t.Inconclusive == "" || poisoned {
			break
		}
		// the machine (or this process) was stalled: let it recover before the next attempt
		time.Sleep(time.Duration(try+1) * 200 * time.Millisecond)
	}
	if t.Inconclusive == "" && len(t.Viol) == 0 && t.RaceSite && !stop {
		// (see raceDependent) the execution contains a point whose course is decided by select's pseudo-random choice
		// inside the client: both courses belong to the enumeration, so the execution is repeated (bounded) until the
		// other course was seen or 10 repetitions agree.
		for i := 0; i < 10 && !poisoned; i++ {
			raceRepeats++
			if r := runOne(cfg, prefix, stop); r.Inconclusive == "" && len(r.Viol) > 0 {
				t = r
				break
			}
		}
	}
	if t.Inconclusive != "" || len(t.Viol) == 0 {
		return t
	}
	saved := paranoid
	paranoid = true
	defer func() { paranoid = saved }()
	seen := map[string]bool{}
	for _, v := range t.Viol {
		if seen[v.Key] || confirmedKeys[v.Key] >= 8 {
			continue // (a class that was reproduced 8 times in this process is not re-executed for every further hit)
		}
		seen[v.Key] = true
		pre, stopAt := t.Events, false
		if v.At > 0 && v.At <= len(t.Events) {
			pre, stopAt = t.Events[:v.At], true
		}
		if raceDependent(v.Key) {
			// The class depends on a choice the harness does not own (Go's pseudo-random select between two ready
			// cases inside the client, see raceDependent): an execution of the same prefix may legitimately not show
			// it. It is believed when one of up to 12 re-executions, each auditing every quiescence with a full stack
			// snapshot, violates the same rule (an audited observation of a blocked call is reliable on its own).
			found := false
			for i := 0; i < 12 && !found && !poisoned; i++ {
				for _, rv := range runOne(cfg, pre, stopAt).Viol {
					if rv.Key == v.Key {
						found = true
					}
				}
			}
			if !found {
				unconfirmed++
				t.Viol = nil
				t.Inconclusive = "violation not reproduced on re-execution: " + v.Key
				return t
			}
			confirmedKeys[v.Key]++
			continue
		}
		for i := 0; i < 3; i++ {
			var r *trace
			for try := 0; try < 6; try++ { // a re-execution that is itself inconclusive (slow machine) says nothing: repeat it
				r = runOne(cfg, pre, stopAt)
				if r.Inconclusive == "" || len(r.Viol) > 0 || poisoned {
					break
				}
			}
			found := false
			for _, rv := range r.Viol {
				if rv.Key == v.Key {
					found = true
				}
			}
			if !found {
				unconfirmed++
				t.Viol = nil
				t.Inconclusive = "violation not reproduced on re-execution: " + v.Key
				return t
			}
		}
		confirmedKeys[v.Key]++
	}
	return t
}

// raceDependent: part D, Close while calls wait behind the batch that waits for the connection. Whether the send
// loop, once released, takes the next queued entry or notices `closed` first is decided by select's pseudo-random
// choice in fetchAllPendingRequests (both cases are ready).
func raceDependent(key string) bool {
	return strings.HasPrefix(key, "stuck/") && strings.HasSuffix(key, "/while-connection-not-ready")
}

var raceRepeats int64
var unconfirmed int64
var confirmedKeys = map[string]int{}
var execCount int64

// exploreSubtree enumerates every execution that starts with prefix (stateless DFS: run the
// prefix, continue with first choices, then branch on every alternative recorded on the way).
func exploreSubtree(cfg Config, prefix []string, expired func() bool) *subtreeResult {
	res := newSubtreeResult(prefix)
	began := time.Now()
	defer func() { res.WallMs = time.Since(began).Milliseconds() }()
	states := map[uint64]struct{}{}
	var rec func(p []string)
	rec = func(p []string) {
		if expired() {
			res.Inconclusive["budget exhausted"]++
			return
		}
		if poisoned {
			res.Inconclusive["subtree skipped: a leftover goroutine of an earlier execution keeps running in this worker"]++
			return
		}
		t0 := time.Now()
		t := runChecked(cfg, p, false)
		if d := time.Since(t0).Milliseconds(); d > res.SlowestMs {
			res.SlowestMs, res.Slowest = d, append([]string{}, t.Events...)
		}
		res.account(cfg, t, states)
		if t.Inconclusive != "" || !branchable(t.Viol) {
			return // the subtree below an inconclusive / unsafe execution is not explored (reported)
		}
		// (an execution that ended early with a violation of a liveness class - a starved call - still has its
		// siblings explored: t.Events is then the violating prefix)
		for k := len(t.Events) - 1; k >= len(p); k-- {
			for _, alt := range t.Enabled[k][1:] {
				np := append(append([]string{}, t.Events[:k]...), alt)
				rec(np)
			}
		}
	}
	rec(prefix)
	for s := range states {
		res.States = append(res.States, s)
	}
	sort.Slice(res.States, func(i, j int) bool { return res.States[i] < res.States[j] })
	res.Spins, res.Audits, res.Mismatch = quiesceSpins, stackAudits, auditMismatch
	return res
}

// frontier lists the prefixes of length depth (and accounts the executions that end earlier).
func frontier(cfg Config, depth int) *subtreeResult {
	res := newSubtreeResult(nil)
	states := map[uint64]struct{}{}
	var rec func(p []string)
	rec = func(p []string) {
		if len(p) == depth || poisoned {
			res.Frontier = append(res.Frontier, p) // (a poisoned process hands the whole subtree to a fresh worker)
			return
		}
		t := runChecked(cfg, p, true)
		if t.Inconclusive != "" || !onlyStuck(t.Viol) {
			res.account(cfg, t, states) // (a violation inside the prefix ends the execution there: nothing below it)
			return
		}
		en := t.Enabled[len(t.Enabled)-1]
		if len(en) == 0 {
			// a complete execution shorter than the split depth: run it properly (with epilogue)
			res.account(cfg, runChecked(cfg, p, false), states)
			return
		}
		for _, e := range en {
			rec(append(append([]string{}, p...), e))
		}
	}
	rec(nil)
	for s := range states {
		res.States = append(res.States, s)
	}
	return res
}

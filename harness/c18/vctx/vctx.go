// Package vctx replaces package context in internal/client/client_batch.go (import rewrite in
// profiles/c18.txt). Everything is the real context package except WithTimeout, which asks the
// installed hook: the only user in that file is waitConnReady's dial budget
// (context.WithTimeout(context.Background(), dialTimeout)), which thereby becomes a virtual timer
// owned by the explorer instead of 5 s of wall-clock time.
package vctx

import (
	"context"
	"sync"
	"sync/atomic"
	"time"
)

type (
	Context    = context.Context
	CancelFunc = context.CancelFunc
)

var (
	Canceled         = context.Canceled
	DeadlineExceeded = context.DeadlineExceeded
)

func Background() Context                                       { return context.Background() }
func TODO() Context                                             { return context.TODO() }
func WithCancel(p Context) (Context, CancelFunc)                { return context.WithCancel(p) }
func WithValue(p Context, k, v any) Context                     { return context.WithValue(p, k, v) }
func WithDeadline(p Context, d time.Time) (Context, CancelFunc) { return context.WithDeadline(p, d) }
func AfterFunc(ctx Context, f func()) func() bool               { return context.AfterFunc(ctx, f) }
func Cause(ctx Context) error                                   { return context.Cause(ctx) }

// Starter arms a one-shot virtual timer: fire is called at most once when the explorer decides
// that d has elapsed; stop reports whether it prevented that.
type Starter func(d time.Duration, fire func()) (stop func() bool)

var starter atomic.Pointer[Starter]

// SetStarter installs (nil: removes) the virtual timer source for WithTimeout.
func SetStarter(s Starter) {
	if s == nil {
		starter.Store(nil)
		return
	}
	starter.Store(&s)
}

type tctx struct {
	context.Context
	done chan struct{}
	mu   sync.Mutex
	err  error
}

func (c *tctx) Done() <-chan struct{}       { return c.done }
func (c *tctx) Deadline() (time.Time, bool) { return time.Time{}, false }
func (c *tctx) Err() error {
	c.mu.Lock()
	defer c.mu.Unlock()
	return c.err
}
func (c *tctx) finish(err error) {
	c.mu.Lock()
	if c.err == nil {
		c.err = err
		close(c.done)
	}
	c.mu.Unlock()
}

func WithTimeout(p Context, d time.Duration) (Context, CancelFunc) {
	s := starter.Load()
	if s == nil {
		return context.WithTimeout(p, d)
	}
	c := &tctx{Context: p, done: make(chan struct{})}
	stop := (*s)(d, func() { c.finish(context.DeadlineExceeded) })
	var stopParent func() bool
	if p.Done() != nil {
		stopParent = context.AfterFunc(p, func() { stop(); c.finish(p.Err()) })
	}
	return c, func() {
		stop()
		if stopParent != nil {
			stopParent()
		}
		c.finish(context.Canceled)
	}
}

package main

// collapse.go - part C: the request-collapse layer (internal/client/client_collapse.go).
//
// Subject: client.NewReqCollapse(client.NewInterceptedClient(store)) - the way production (tikv/kv.go) wraps
// its RPC client - on top of a scripted store that parks every request it receives and answers only when the
// explorer decides so. The store's response ECHOES the request it received (command, region id, start version,
// commit version, IsAsync flag, keys, txn infos), so that a caller that is handed the response to another
// caller's request is observable.
//
// Alphabet (configurations with part=C):
//
//	S<i>:<shape>   caller i calls SendRequest with a request of the named shape (see cshape / gridShapes)
//	S<i>a:<shape>  caller i calls SendRequestAsync with it (no deadline)
//	A:<n>          the store answers the n-th request it received (echo of that request)        - any order
//	E:<n>          the store fails the n-th request (connection failure)                         - deviation
//	ET:<n>         the n-th request times out inside the client below (context.DeadlineExceeded)  - deviation
//	C<i>           caller i's context is cancelled                                              - deviation
//	T<i>           caller i's own (virtual) time-out fires                                        - deviation
//
// Callers submit in index order (the index is only a name); which shape and which API a caller uses is part of
// the enumeration, so every combination of grid shapes is submitted in every order relative to the answer /
// failure / time-out of the requests that are at the store and to the cancellation / time-out of the callers
// that wait. The grid contains identical requests, plainly different ones (other region, other start version,
// other IsAsync flag), requests that are never to be merged (Keys = resolve-lock lite, TxnInfos = batch resolve,
// another command) and region-level requests whose decimal fields concatenate to the same text
// (region 1 / start 23 vs region 12 / start 3; 1 / 21 vs 12 / 1; start 2 / commit 30 vs start 23 / commit 0).
//
// Oracle (reference model = the property text only; no knowledge of the collapse key):
//
//	own response   a call that returns a response returns the echo of ITS OWN request              (misdelivery)
//	exactly once   a call completes at most once; an event completes exactly the calls it concerns:
//	               answer / failure / time-out of store request n -> the calls that wait for n (its sender and
//	               the identical calls that joined it), with that result; cancel / own time-out -> that call;
//	               nobody else                                                (stuck, spurious-return, wrong-result)
//	reach the store  a submission makes at most one new request arrive at the store, and that request is the
//	               submitted one; if none arrives a request with identical content must be pending at the store (the
//	               call shares that flight: "identical requests may share a flight"); otherwise the request was
//	               merged with a different one or dropped                            (request-never-reached-store)
//
// Sharing is never demanded (a layer that forwards everything satisfies the oracle); only wrong sharing is
// judged. Requests that differ ONLY in the commit version are outside the judged domain (a transaction has one
// fate, so the commit version is a function of the start version; the unchanged key leaves it out): such a pair
// is in the grid once and is reported as an observation, not a violation.
//
// Engine: as parts A and B - stateless depth-first enumeration, one event at a time, the explorer continues at
// quiescence of the process (GOMAXPROCS=1, scheduler metrics + stack audits, see world.go). Nothing real waits:
// the time-out timer of collapse() is virtual (vtime rewrite of client_collapse.go, profiles/c18.txt).

import (
	"context"
	stderrors "errors"
	"fmt"
	"hash/fnv"
	"os"
	"runtime"
	"strconv"
	"strings"
	"sync"
	"time"

	"github.com/pingcap/kvproto/pkg/kvrpcpb"
	"github.com/pkg/errors"
	"github.com/tikv/client-go/v2/internal/client"
	"github.com/tikv/client-go/v2/tikvrpc"
	"github.com/tikv/client-go/v2/util/async"
	"github.com/tikv/client-go/v2/verifrt/vtime"
)

// ---------- request shapes ----------

type cshape struct {
	Name    string
	Get     bool // another command (never collapsed)
	Region  uint64
	Start   uint64
	Commit  uint64
	IsAsync bool
	Keys    []string // resolve-lock lite
	Txns    bool     // batch resolve (TxnInfos)
	Fate    bool     // differs from a grid shape only in the commit version (not judged, see the header)
}

// fateOf: the commit version is a function of the start version (0 = rolled back), chosen so that
// start||commit collides too: "2"+"30" == "23"+"0".
func fateOf(start uint64) uint64 {
	switch start {
	case 23, 21, 123:
		return 0
	case 2:
		return 30
	case 3:
		return 31
	case 1:
		return 22
	}
	return start + 10
}

func mkShape(region, start uint64, mods ...string) cshape {
	s := cshape{Region: region, Start: start, Commit: fateOf(start)}
	s.Name = fmt.Sprintf("r%ds%d", region, start)
	for _, m := range mods {
		switch {
		case m == "async":
			s.IsAsync = true
		case m == "txns":
			s.Txns = true
		case strings.HasPrefix(m, "keys"):
			s.Keys = []string{"k" + m[4:]}
		case strings.HasPrefix(m, "c"):
			s.Commit, _ = strconv.ParseUint(m[1:], 10, 64)
			s.Fate = true
		case m == "get":
			s.Get = true
		}
		s.Name += "+" + m
	}
	return s
}

// gridShapes: the request shapes of a grid, in enumeration order.
func gridShapes(grid string) []cshape {
	switch grid {
	case "small": // 3 and more callers: identical / colliding / plainly different / other flag / never-collapsed
		return []cshape{mkShape(1, 23), mkShape(12, 3), mkShape(1, 3), mkShape(1, 23, "async"), mkShape(1, 23, "keys1")}
	case "pairs":
		return []cshape{
			mkShape(1, 23), mkShape(12, 3), // region||start collide
			mkShape(1, 21), mkShape(12, 1), // region||start collide
			mkShape(1, 3), mkShape(12, 23), // same start / same region as the first two, nothing collides
			mkShape(1, 2), // start||commit collides with r1s23 ("2"+"30" / "23"+"0")
			mkShape(1, 23, "async"), mkShape(12, 3, "async"),
			mkShape(1, 23, "keys1"), mkShape(1, 23, "keys2"), mkShape(12, 3, "keys1"),
			mkShape(1, 23, "txns"), mkShape(1, 21, "txns"), // two different batch requests for one region
			mkShape(1, 23, "c40"),
			mkShape(1, 23, "get"),
		}
	case "full": // thorough: product of regions x start versions x IsAsync, plus the never-collapsed kinds
		var out []cshape
		for _, r := range []uint64{1, 12, 123} {
			for _, s := range []uint64{1, 2, 3, 21, 23} {
				out = append(out, mkShape(r, s))
			}
		}
		for _, r := range []uint64{1, 12} {
			for _, s := range []uint64{3, 23} {
				out = append(out, mkShape(r, s, "async"), mkShape(r, s, "keys1"), mkShape(r, s, "txns"))
			}
		}
		out = append(out, mkShape(1, 23, "keys2"), mkShape(1, 23, "c40"), mkShape(12, 3, "c40"), mkShape(1, 23, "get"), mkShape(12, 3, "get"))
		return out
	}
	return nil
}

func (s cshape) collapsible() bool { return !s.Get && len(s.Keys) == 0 && !s.Txns }

func (s cshape) kind() string {
	switch {
	case s.Get:
		return "other-command"
	case len(s.Keys) > 0:
		return "resolve-lock-lite"
	case s.Txns:
		return "batch-resolve"
	}
	return "region-level"
}

func (s cshape) request() *tikvrpc.Request {
	if s.Get {
		req := tikvrpc.NewRequest(tikvrpc.CmdGet, &kvrpcpb.GetRequest{Key: []byte("k1"), Version: s.Start})
		req.RegionId = s.Region
		return req
	}
	rl := &kvrpcpb.ResolveLockRequest{StartVersion: s.Start, CommitVersion: s.Commit, IsAsync: s.IsAsync}
	for _, k := range s.Keys {
		rl.Keys = append(rl.Keys, []byte(k))
	}
	if s.Txns {
		rl.StartVersion, rl.CommitVersion = 0, 0 // (as the GC worker builds it: the versions travel in TxnInfos)
		rl.TxnInfos = []*kvrpcpb.TxnInfo{{Txn: s.Start, Status: s.Commit}}
	}
	req := tikvrpc.NewRequest(tikvrpc.CmdResolveLock, rl)
	req.RegionId = s.Region
	return req
}

// contentOf describes a request as the store sees it; the store echoes it in its response.
func contentOf(req *tikvrpc.Request) string {
	switch req.Type {
	case tikvrpc.CmdResolveLock:
		r := req.ResolveLock()
		var keys, txns []string
		for _, k := range r.GetKeys() {
			keys = append(keys, string(k))
		}
		for _, ti := range r.GetTxnInfos() {
			txns = append(txns, fmt.Sprintf("%d>%d", ti.Txn, ti.Status))
		}
		return fmt.Sprintf("resolve region=%d start=%d commit=%d async=%v keys=[%s] txns=[%s]", req.RegionId, r.GetStartVersion(), r.GetCommitVersion(), r.GetIsAsync(),
			strings.Join(keys, " "), strings.Join(txns, " "))
	case tikvrpc.CmdGet:
		return fmt.Sprintf("get region=%d key=%s version=%d", req.RegionId, req.Get().GetKey(), req.Get().GetVersion())
	}
	return fmt.Sprintf("cmd=%v region=%d", req.Type, req.RegionId)
}

func (s cshape) content() string { return contentOf(s.request()) }

// sameButCommit: both region-level, equal in everything but the commit version.
func sameButCommit(a, b cshape) bool {
	return a.collapsible() && b.collapsible() && a.Region == b.Region && a.Start == b.Start && a.IsAsync == b.IsAsync && a.Commit != b.Commit
}

// digitsCollide (coverage only): two different region-level requests some of whose adjacent decimal fields
// concatenate to the same text.
func digitsCollide(a, b cshape) bool {
	if !a.collapsible() || !b.collapsible() || a.IsAsync != b.IsAsync || (a.Region == b.Region && a.Start == b.Start) {
		return false
	}
	d := func(v uint64) string { return strconv.FormatUint(v, 10) }
	return d(a.Region)+d(a.Start) == d(b.Region)+d(b.Start) ||
		(a.Region == b.Region && d(a.Start)+d(a.Commit) == d(b.Start)+d(b.Commit)) ||
		d(a.Region)+d(a.Start)+d(a.Commit) == d(b.Region)+d(b.Start)+d(b.Commit)
}

// relation of the request whose response was received to the caller's own request (part of the violation key).
func relation(own cshape, got *cshape) string {
	switch {
	case got == nil:
		return "an-unknown-request"
	case got.kind() != own.kind():
		return "a-request-of-another-kind"
	case got.Region == own.Region && got.Start == own.Start:
		return "the-same-region-and-start-version-with-other-fields"
	case got.Region == own.Region:
		return "the-same-region-other-start-version"
	case got.Start == own.Start:
		return "another-region-same-start-version"
	}
	return "another-region-other-start-version"
}

// ---------- scripted store (the Client below the collapse layer) ----------

var errStoreFailure = stderrors.New("verif: connection to the scripted store failed")
var errStoreClosed = stderrors.New("verif: scripted store closed")

type cres struct {
	resp *tikvrpc.Response
	err  error
}

type creq struct {
	N        int
	Content  string
	Get      bool
	ViaAsync bool // arrived through SendRequestAsync
	NoCancel bool // its context can never be cancelled (context.Background(): sent by a flight of the collapse layer)
	State    string
	done     chan cres
}

type cstore struct {
	mu     sync.Mutex
	reqs   []*creq
	closed bool
}

func (s *cstore) Close() error {
	s.mu.Lock()
	s.closed = true
	var pend []*creq
	for _, r := range s.reqs {
		if r.State == "pending" {
			r.State = "closed"
			pend = append(pend, r)
		}
	}
	s.mu.Unlock()
	for _, r := range pend {
		r.done <- cres{nil, errStoreClosed}
	}
	return nil
}
func (s *cstore) CloseAddr(string) error                      { return nil }
func (s *cstore) SetEventListener(client.ClientEventListener) {}

func (s *cstore) arrive(ctx context.Context, req *tikvrpc.Request, viaAsync bool) *creq {
	// (the content is taken now: the wrapper object belongs to the caller)
	r := &creq{Content: contentOf(req), Get: req.Type == tikvrpc.CmdGet, ViaAsync: viaAsync, NoCancel: ctx.Done() == nil, State: "pending", done: make(chan cres, 1)}
	s.mu.Lock()
	defer s.mu.Unlock()
	if s.closed {
		return nil
	}
	r.N = len(s.reqs)
	s.reqs = append(s.reqs, r)
	return r
}

func (s *cstore) wait(ctx context.Context, r *creq) (*tikvrpc.Response, error) {
	select {
	case x := <-r.done:
		return x.resp, x.err
	case <-ctx.Done():
		s.mu.Lock()
		if r.State == "pending" {
			r.State = "abandoned"
		}
		s.mu.Unlock()
		return nil, errors.WithStack(ctx.Err())
	}
}

func (s *cstore) SendRequest(ctx context.Context, addr string, req *tikvrpc.Request, timeout time.Duration) (*tikvrpc.Response, error) {
	r := s.arrive(ctx, req, false)
	if r == nil {
		return nil, errStoreClosed
	}
	return s.wait(ctx, r)
}

func (s *cstore) SendRequestAsync(ctx context.Context, addr string, req *tikvrpc.Request, cb async.Callback[*tikvrpc.Response]) {
	r := s.arrive(ctx, req, true)
	if r == nil {
		cb.Invoke(nil, errStoreClosed)
		return
	}
	go func() { cb.Schedule(s.wait(ctx, r)) }()
}

// finish ends pending request n with the given outcome; false if it is not pending.
func (s *cstore) finish(n int, state string) bool {
	s.mu.Lock()
	if n < 0 || n >= len(s.reqs) || s.reqs[n].State != "pending" {
		s.mu.Unlock()
		return false
	}
	r := s.reqs[n]
	r.State = state
	s.mu.Unlock()
	switch state {
	case "answered":
		if r.Get {
			r.done <- cres{&tikvrpc.Response{Resp: &kvrpcpb.GetResponse{Value: []byte(r.Content)}}, nil}
		} else {
			// (the Abort text is only the carrier of the echo)
			r.done <- cres{&tikvrpc.Response{Resp: &kvrpcpb.ResolveLockResponse{Error: &kvrpcpb.KeyError{Abort: r.Content}}}, nil}
		}
	case "failed":
		r.done <- cres{nil, errors.WithStack(errStoreFailure)}
	case "timed-out":
		r.done <- cres{nil, errors.WithStack(context.DeadlineExceeded)}
	}
	return true
}

// ---------- world ----------

type ccaller struct {
	idx       int
	shape     cshape
	viaAsync  bool
	submitted bool
	cancel    context.CancelFunc
	timeout   time.Duration

	// written by the caller goroutine under cworld.mu
	returns  int
	noResp   bool
	value    string
	err      error
	panicked string

	// reference model / explorer's notes
	flight    int  // store request this call waits for (its own, or the identical one it joined); -1 none
	ownFlight bool // that store request arrived at this call's own submission
	cancelled bool // C<i> happened
	timedOut  bool // T<i> happened
	tainted   bool // reported already (request never reached the store / stuck): only misdelivery and exactly-once are judged from here on
	unjudged  bool // shares a flight with a request that differs only in the commit version (observation)
}

type cworld struct {
	cfg     Config
	shapes  map[string]cshape
	byText  map[string]cshape
	mu      sync.Mutex
	store   *cstore
	cli     client.Client
	ctl     *vctl
	ctx     context.Context
	stop    context.CancelFunc
	callers []*ccaller
	notes   []viol
	flags   map[string]bool // coverage facts of this execution
}

func newCWorld(cfg Config) *cworld {
	w := &cworld{cfg: cfg, store: &cstore{}, ctl: &vctl{timers: map[*vtimer]struct{}{}}, shapes: map[string]cshape{}, byText: map[string]cshape{}, flags: map[string]bool{}}
	for _, g := range []string{"small", "pairs", "full"} { // (byText: to name the request whose response a caller got)
		for _, s := range gridShapes(g) {
			w.byText[s.content()] = s
			if g == cfg.Grid {
				w.shapes[s.Name] = s
			}
		}
	}
	w.ctx, w.stop = context.WithCancel(context.Background())
	vtime.SetController(w.ctl)
	client.VerifCollapseReset()
	// the way tikv.NewKVStore wraps its client
	w.cli = client.NewReqCollapse(client.NewInterceptedClient(w.store))
	for i := 0; i < cfg.Callers; i++ {
		w.callers = append(w.callers, &ccaller{idx: i, timeout: callerTimeout(i), flight: -1})
	}
	return w
}

func (w *cworld) teardown() bool {
	patient = true
	defer func() { patient = false }()
	for _, c := range w.callers {
		if c.cancel != nil {
			c.cancel()
		}
	}
	quiesce()
	func() {
		defer func() { _ = recover() }()
		_ = w.cli.Close() // ends every request still parked at the store, hence every flight
	}()
	w.stop()
	ok := quiesce()
	client.VerifCollapseReset() // (nothing of this execution may be left in the process-wide flight table)
	if !ok {
		poisoned = true
		poisonedWhy = "still running after teardown (part C): " + busyGoroutines()
	}
	return ok
}

func (w *cworld) submit(c *ccaller, sh cshape, viaAsync bool) {
	c.shape, c.viaAsync, c.submitted = sh, viaAsync, true
	ctx, cancel := context.WithCancel(w.ctx)
	c.cancel = cancel
	req := sh.request()
	cli := w.cli
	record := func(resp *tikvrpc.Response, err error) {
		w.mu.Lock()
		defer w.mu.Unlock()
		c.returns++
		if c.returns > 1 {
			return
		}
		c.err = err
		if err == nil {
			switch {
			case resp == nil || resp.Resp == nil:
				c.noResp = true
				c.value = "<nil response>"
			default:
				switch r := resp.Resp.(type) {
				case *kvrpcpb.ResolveLockResponse:
					c.value = r.GetError().GetAbort()
				case *kvrpcpb.GetResponse:
					c.value = string(r.Value)
				default:
					c.value = fmt.Sprintf("<%T>", resp.Resp)
				}
			}
		}
	}
	guard := func() {
		if r := recover(); r != nil {
			w.mu.Lock()
			c.panicked = fmt.Sprint(r)
			w.mu.Unlock()
		}
	}
	if !viaAsync {
		go func() {
			defer guard()
			resp, err := cli.SendRequest(ctx, storeAddr, req, c.timeout)
			record(resp, err)
		}()
		return
	}
	go func() {
		defer guard()
		rl := async.NewRunLoop()
		cb := async.NewCallback(rl, record)
		cli.SendRequestAsync(ctx, storeAddr, req, cb)
		for w.ctx.Err() == nil { // keep serving the run loop: a second completion would be seen
			_, _ = rl.Exec(w.ctx)
		}
	}()
}

// ---------- observation ----------

type creqObs struct {
	N        int
	Content  string
	State    string
	ViaAsync bool
	NoCancel bool
}

type cobs struct {
	Callers []callerObs
	Reqs    []creqObs
}

func (w *cworld) observe() cobs {
	var o cobs
	w.mu.Lock()
	for _, c := range w.callers {
		o.Callers = append(o.Callers, callerObs{c.submitted, c.returns, c.value, c.err, c.panicked, c.noResp})
	}
	w.mu.Unlock()
	w.store.mu.Lock()
	for _, r := range w.store.reqs {
		o.Reqs = append(o.Reqs, creqObs{r.N, r.Content, r.State, r.ViaAsync, r.NoCancel})
	}
	w.store.mu.Unlock()
	return o
}

func (o *cobs) inflight(i int) bool { return o.Callers[i].Submitted && o.Callers[i].Returns == 0 }

func (w *cworld) enabled(o *cobs, budget int) []string {
	var out []string
	for _, r := range o.Reqs {
		if r.State == "pending" {
			out = append(out, "A:"+strconv.Itoa(r.N))
		}
	}
	next := -1
	for i := range o.Callers {
		if !o.Callers[i].Submitted {
			next = i
			break
		}
	}
	if next >= 0 {
		for _, s := range gridShapes(w.cfg.Grid) {
			out = append(out, fmt.Sprintf("S%d:%s", next, s.Name), fmt.Sprintf("S%da:%s", next, s.Name))
		}
	}
	if budget <= 0 {
		return out
	}
	for _, r := range o.Reqs {
		if r.State == "pending" {
			out = append(out, "E:"+strconv.Itoa(r.N), "ET:"+strconv.Itoa(r.N))
		}
	}
	for i := range o.Callers {
		if o.inflight(i) {
			out = append(out, fmt.Sprintf("C%d", i))
			if !w.callers[i].viaAsync && w.ctl.pendingWith(w.callers[i].timeout) == 1 {
				out = append(out, fmt.Sprintf("T%d", i))
			}
		}
	}
	return out
}

func apiTag(c *ccaller) string {
	if c.viaAsync {
		return "async"
	}
	return "sync"
}

// perform executes one event (without waiting) and says which calls the property requires to return.
func (w *cworld) perform(o *cobs, e string) (expect, error) {
	ex := expect{must: map[int]string{}, may: map[int]string{}}
	waiters := func(n int, cls string) {
		for i, c := range w.callers {
			if c.flight == n && o.inflight(i) && !c.tainted && !c.unjudged {
				ex.must[i] = cls
			}
		}
	}
	head, arg, hasArg := strings.Cut(e, ":")
	switch {
	case e[0] == 'S' && hasArg:
		viaAsync := strings.HasSuffix(head, "a")
		i, err := strconv.Atoi(strings.TrimSuffix(head[1:], "a"))
		sh, ok := w.shapes[arg]
		if err != nil || !ok || i < 0 || i >= len(w.callers) || w.callers[i].submitted || (i > 0 && !w.callers[i-1].submitted) {
			return ex, errNotEnabled
		}
		ex.reason = "a submission completes nobody"
		w.submit(w.callers[i], sh, viaAsync)
	case hasArg && (head == "A" || head == "E" || head == "ET"):
		n, err := strconv.Atoi(arg)
		if err != nil || n < 0 || n >= len(o.Reqs) || o.Reqs[n].State != "pending" {
			return ex, errNotEnabled
		}
		state, cls := "answered", "ok"
		ex.reason = "the store answered the request this call waits for"
		switch head {
		case "E":
			state, cls = "failed", "failure"
			ex.reason = "the request this call waits for failed below the collapse layer"
		case "ET":
			state, cls = "timed-out", "timeout"
			ex.reason = "the request this call waits for timed out below the collapse layer"
		}
		waiters(n, cls)
		if len(ex.must) == 0 {
			w.flags["store_request_ended_after_all_its_callers_had_left"] = true
		} else {
			for i := range ex.must {
				if !w.callers[i].ownFlight {
					w.flags["shared_flight_ended_with_"+cls+"_for_a_joined_call"] = true
				}
			}
		}
		if !w.store.finish(n, state) {
			return ex, errNotEnabled
		}
	case !hasArg && (e[0] == 'C' || e[0] == 'T'):
		i, err := strconv.Atoi(e[1:])
		if err != nil || i < 0 || i >= len(w.callers) || !o.inflight(i) {
			return ex, errNotEnabled
		}
		c := w.callers[i]
		if e[0] == 'C' {
			c.cancelled = true
			ex.must[i] = "canceled"
			ex.reason = "the caller's context was cancelled"
			c.cancel()
		} else {
			if c.viaAsync || w.ctl.pendingWith(c.timeout) != 1 {
				return ex, errNotEnabled
			}
			c.timedOut = true
			ex.must[i] = "timeout"
			ex.reason = "the caller's own time-out elapsed"
			w.ctl.fireByDuration(c.timeout)
		}
		if c.flight >= 0 && o.Reqs[c.flight].State == "pending" && o.Reqs[c.flight].NoCancel {
			w.flags["caller_left_a_flight_that_goes_on"] = true
		}
	default:
		return ex, errNotEnabled
	}
	return ex, nil
}

func errClassC(err error) string {
	if err == nil {
		return "ok"
	}
	switch cause := errors.Cause(err); {
	case cause == context.Canceled:
		return "canceled"
	case cause == context.DeadlineExceeded:
		return "timeout"
	case cause == errStoreFailure:
		return "failure"
	case cause == errStoreClosed:
		return "closed"
	}
	return "other"
}

// check compares the observations before and after one event with the reference model.
func (w *cworld) check(before, after *cobs, e string, ex expect) []viol {
	var vs []viol
	kind := eventKind(e)
	add := func(key, what string) { vs = append(vs, viol{Key: "collapse:" + key, What: what}) }
	for i := range after.Callers {
		b, a := before.Callers[i], after.Callers[i]
		c := w.callers[i]
		tag := apiTag(c)
		if a.Panicked != "" && b.Panicked == "" {
			add("panic/caller/"+tag, fmt.Sprintf("caller %d panicked after event %s: %s", i, e, a.Panicked))
			continue
		}
		if a.Returns > 1 && a.Returns > b.Returns {
			add("double-return/"+tag+"/after-"+kind, fmt.Sprintf("call of caller %d (%s) completed %d times (event %s)", i, c.shape.Name, a.Returns, e))
			continue
		}
		want, must := ex.must[i]
		newly := b.Returns == 0 && a.Returns >= 1
		if must && a.Returns == 0 {
			add("stuck/"+tag+"/after-"+kind, fmt.Sprintf("caller %d (%s) is still blocked after event %s (%s)", i, c.shape.Name, e, ex.reason))
			c.tainted = true
			continue
		}
		if !newly {
			continue
		}
		if a.NoResp {
			add("no-response-no-error/"+tag+"/after-"+kind, fmt.Sprintf("caller %d completed with neither a response nor an error (event %s)", i, e))
			continue
		}
		cls := errClassC(a.Err)
		desc := cls
		if a.Err != nil {
			desc = fmt.Sprintf("%s (%v)", cls, a.Err)
		}
		if cls == "ok" && a.Value != c.shape.content() && !c.unjudged {
			var got *cshape
			if g, ok := w.byText[a.Value]; ok {
				got = &g
			}
			add("misdelivery/"+tag+"/"+c.shape.kind()+"/got-the-response-to-"+relation(c.shape, got)+"/after-"+kind,
				fmt.Sprintf("caller %d sent {%s} and got the response to {%s} (event %s)", i, c.shape.content(), a.Value, e))
			continue
		}
		if cls == "other" {
			add("error-class/"+tag+"/after-"+kind, fmt.Sprintf("caller %d returned an error outside the allowed classes: %v", i, a.Err))
			continue
		}
		if c.tainted || c.unjudged {
			continue // (reported before / outside the judged domain: only exactly-once and own-response are judged)
		}
		if !must {
			add("spurious-return/"+tag+"/"+cls+"/after-"+kind, fmt.Sprintf("caller %d (%s) returned %s although event %s does not concern its call", i, c.shape.Name, desc, e))
			continue
		}
		if cls != want {
			add("wrong-result/"+tag+"/"+cls+"-instead-of-"+want+"/after-"+kind, fmt.Sprintf("caller %d (%s) returned %s after event %s; expected %s (%s)", i, c.shape.Name, desc, e, want, ex.reason))
		}
	}
	// a caller that left or returned waits for nothing
	for i, c := range w.callers {
		if after.Callers[i].Returns > 0 {
			c.flight = -1
		}
	}
	if e[0] != 'S' {
		if len(after.Reqs) != len(before.Reqs) {
			// Not demanded by the property either way (a retry below a caller is not forbidden); the model cannot
			// attribute such a request, so the execution is not judged further.
			w.notes = append(w.notes, viol{Key: "store_request_without_a_submission/after-" + kind, What: fmt.Sprintf("after event %s the store has received %d request(s) more although nobody submitted", e, len(after.Reqs)-len(before.Reqs))})
			vs = append(vs, viol{Key: unjudgeable})
		}
		return vs
	}
	// ---- "reach the store" at a submission ----
	head, _, _ := strings.Cut(e, ":")
	i, _ := strconv.Atoi(strings.TrimSuffix(head[1:], "a"))
	c := w.callers[i]
	if after.Callers[i].Returns > 0 {
		return vs // (reported above as spurious)
	}
	tag, own := apiTag(c), c.shape.content()
	fresh := after.Reqs[len(before.Reqs):]
	var identical, modCommit []int // pending store requests with identical content / identical but for the commit version
	var others []string
	for _, r := range before.Reqs {
		if r.State != "pending" {
			continue
		}
		switch g, known := w.byText[r.Content]; {
		case r.Content == own:
			identical = append(identical, r.N)
		case known && sameButCommit(g, c.shape):
			modCommit = append(modCommit, r.N)
		default:
			others = append(others, "{"+r.Content+"}")
		}
		if g, known := w.byText[r.Content]; known && digitsCollide(g, c.shape) {
			w.flags["requests_with_colliding_digit_concatenation_in_flight_together"] = true
		}
	}
	if len(identical) > 0 && c.shape.collapsible() {
		w.flags["identical_region_level_requests_in_flight_together"] = true
	}
	if len(identical) > 0 && !c.shape.collapsible() {
		w.flags["identical_never_collapsed_requests_in_flight_together"] = true
	}
	if len(others) > 0 {
		w.flags["different_requests_in_flight_together"] = true
	}
	for _, r := range before.Reqs {
		if r.Content == own && r.State != "pending" && c.shape.collapsible() {
			w.flags["identical_request_submitted_after_its_flight_ended"] = true
		}
	}
	switch {
	case len(fresh) > 1:
		add("invented-requests/"+tag+"/"+c.shape.kind(), fmt.Sprintf("submission %s made %d requests arrive at the store", e, len(fresh)))
	case len(fresh) == 1 && fresh[0].Content != own:
		add("request-altered/"+tag+"/"+c.shape.kind(), fmt.Sprintf("caller %d submitted {%s} but the store received {%s}", i, own, fresh[0].Content))
	case len(fresh) == 1:
		c.flight, c.ownFlight = fresh[0].N, true
		if len(identical) > 0 && c.shape.collapsible() {
			w.flags["identical_request_sent_again_instead_of_sharing"] = true
		}
	case len(identical) > 0:
		// shares the (newest) identical flight. Allowed for every kind of request: the response to an identical request
		// is the response to its own (the unchanged layer never merges lite / batch / other commands, but the property
		// does not forbid it).
		c.flight = identical[len(identical)-1]
		w.flags["call_joined_an_identical_flight"] = true
		if !c.shape.collapsible() {
			w.notes = append(w.notes, viol{Key: "identical_requests_of_a_never_merged_kind_share_a_flight/" + tag + "/" + c.shape.kind(), What: fmt.Sprintf("caller %d's request {%s} was not sent: it shares the flight of an identical pending request", i, own)})
		}
	case c.shape.collapsible() && len(modCommit) > 0:
		c.unjudged = true
		w.notes = append(w.notes, viol{Key: "requests_differing_only_in_commit_version_share_a_flight/" + tag, What: fmt.Sprintf(
			"caller %d's request {%s} was not sent: it shares the flight of {%s}, which differs only in the commit version (outside the judged domain: a transaction has one fate)", i, own, before.Reqs[modCommit[0]].Content)})
	default:
		shape := "/while-nothing-else-is-in-flight"
		if len(others) > 0 {
			shape = "/while-a-different-request-is-in-flight"
		}
		add("request-never-reached-store/"+tag+"/"+c.shape.kind()+shape, fmt.Sprintf(
			"caller %d submitted {%s} (event %s): no request arrived at the store and no identical request is pending there (pending: %s) - it was merged with a different request or dropped",
			i, own, e, strings.Join(others, ", ")))
		c.tainted = true
	}
	return vs
}

// unjudgeable: pseudo key (never reported) that ends an execution the model cannot follow.
const unjudgeable = "\x00unjudgeable"

func cStateHash(w *cworld, o *cobs) uint64 {
	var sb strings.Builder
	sb.WriteString("C|")
	for i, c := range o.Callers {
		fmt.Fprintf(&sb, "c%d:%v:%s:%v:%d:", i, c.Submitted, w.callers[i].shape.Name, w.callers[i].viaAsync, c.Returns)
		if c.Returns > 0 {
			sb.WriteString(errClassC(c.Err))
		}
		fmt.Fprintf(&sb, ":%d:%v;", w.callers[i].flight, w.callers[i].tainted)
	}
	for _, r := range o.Reqs {
		fmt.Fprintf(&sb, "r%d:%s:%s:%v;", r.N, r.Content, r.State, r.ViaAsync)
	}
	h := fnv.New64a()
	h.Write([]byte(sb.String()))
	if stateDump != nil {
		stateDump[sb.String()] = struct{}{}
	}
	return h.Sum64()
}

func cOutcome(w *cworld, o *cobs) string {
	parts := make([]string, len(o.Callers))
	for i, c := range o.Callers {
		switch {
		case !c.Submitted:
			parts[i] = "-"
		case c.Returns == 0:
			parts[i] = "blocked"
		default:
			parts[i] = errClassC(c.Err)
		}
		if w.callers[i].viaAsync {
			parts[i] += "~a"
		}
		if w.callers[i].submitted && !w.callers[i].shape.collapsible() {
			parts[i] += "~" + w.callers[i].shape.kind()
		}
	}
	return strings.Join(parts, ",")
}

// runOneC: one execution of part C (same contract as runOne).
func runOneC(cfg Config, prefix []string, stopAtPrefix bool) *trace {
	t := &trace{PartC: map[string]int{}}
	t.logMark = panicLogCount()
	w := newCWorld(cfg)
	defer func() {
		defer func() {
			if execCount++; execCount%50 == 0 {
				runtime.GC() // (automatic collection is off, see workerMain)
			}
		}()
		for k := range w.flags {
			t.PartC["executions_with_"+k] = 1
		}
		if !w.teardown() {
			if t.Inconclusive == "" && len(t.Viol) == 0 {
				t.Inconclusive = "no quiescence during teardown: busy: " + busyGoroutines()
			}
			t.TeardownFailed = true
		}
	}()
	if !quiesce() {
		t.Inconclusive = "no quiescence after setup: busy: " + busyGoroutines()
		poisoned = true
		poisonedWhy = "not quiet after the setup of a fresh world (part C): " + busyGoroutines()
		return t
	}
	o := w.observe()
	budget := cfg.MaxF
	step := func(e string) bool {
		ex, err := w.perform(&o, e)
		if err != nil {
			t.Diverged = true
			t.Inconclusive = fmt.Sprintf("event %s could not be performed: %v", e, err)
			return false
		}
		t.Events = append(t.Events, e)
		budget -= cfg.cost(e)
		at := len(t.Events)
		if !quiesce() {
			t.Inconclusive = "no quiescence after event " + eventKind(e) + ": busy: " + busyGoroutines()
			return false
		}
		after := w.observe()
		t.Steps++
		ended := false
		for _, v := range w.check(&o, &after, e, ex) {
			if v.Key == unjudgeable {
				ended = true
				continue
			}
			v.At = at
			t.Viol = append(t.Viol, v)
		}
		for _, n := range w.notes {
			n.At = at
			t.Obs = append(t.Obs, n)
		}
		w.notes = nil
		if n, msg := panicLogsSince(t.logMark); n > 0 {
			t.logMark += n
			t.Viol = append(t.Viol, viol{Key: "collapse:panic/client-goroutine/after-" + eventKind(e), At: at, What: fmt.Sprintf("the client recovered a panic after event %s: %s", e, msg)})
		}
		t.PartC["store_requests"] += len(after.Reqs) - len(o.Reqs)
		if e[0] == 'S' {
			t.PartC["submissions"]++
			if len(after.Reqs) == len(o.Reqs) {
				t.PartC["submissions_without_a_new_store_request"]++
			}
		}
		o = after
		n := 0
		for i := range o.Callers {
			if o.inflight(i) {
				n++
			}
		}
		if n > t.MaxInflight {
			t.MaxInflight = n
		}
		return !ended && onlyStuck(t.Viol)
	}
	for k := 0; ; k++ {
		en := w.enabled(&o, budget)
		t.Enabled = append(t.Enabled, en)
		t.States = append(t.States, cStateHash(w, &o))
		var e string
		if k < len(prefix) {
			e = prefix[k]
			found := false
			for _, x := range en {
				if x == e {
					found = true
				}
			}
			if !found {
				t.Diverged = true
				t.Inconclusive = fmt.Sprintf("replay diverged: %s not enabled at step %d (enabled: %v)", e, k, en)
				return t
			}
		} else {
			if stopAtPrefix || len(en) == 0 {
				break
			}
			e = en[0]
		}
		if !step(e) {
			return t
		}
	}
	t.Outcome = cOutcome(w, &o)
	if os.Getenv("VERIF_C18_DEBUG") != "" && len(t.Viol) > 0 {
		fmt.Fprintf(os.Stderr, "part C: %v -> %v\n", t.Events, t.Viol)
	}
	return t
}

package main

// world.go - one execution's world: the scripted echo server (real grpc.Server on an in-memory
// bufconn listener), the real RPCClient, the callers, the virtual timer table and the
// quiescence test.

import (
	"context"
	"fmt"
	"io"
	"net"
	"os"
	"runtime"
	rmetrics "runtime/metrics"
	"sort"
	"strings"
	"sync"
	"sync/atomic"
	"time"

	"github.com/pingcap/kvproto/pkg/kvrpcpb"
	"github.com/pingcap/kvproto/pkg/tikvpb"
	dto "github.com/prometheus/client_model/go"
	"github.com/tikv/client-go/v2/internal/client"
	"github.com/tikv/client-go/v2/metrics"
	"github.com/tikv/client-go/v2/tikvrpc"
	"github.com/tikv/client-go/v2/util/async"
	"github.com/tikv/client-go/v2/verifh/c18/vctx"
	"github.com/tikv/client-go/v2/verifrt/vtime"
	"google.golang.org/grpc"
	"google.golang.org/grpc/codes"
	"google.golang.org/grpc/metadata"
	"google.golang.org/grpc/status"
	"google.golang.org/grpc/test/bufconn"
)

const storeAddr = "verif-c18-store"
const fwdHost = "verif-c18-fwd"
const fwdMetaKey = "tikv-forwarded-host" // internal/client.forwardMetadataKey
const dropMsg = "verif: stream dropped by the scripted server"

// ---------- quiescence ----------

var qs = []rmetrics.Sample{
	{Name: "/sched/goroutines/runnable:goroutines"},
	{Name: "/sched/goroutines/not-in-go:goroutines"},
}

func metricsUsable() bool {
	rmetrics.Read(qs)
	return qs[0].Value.Kind() == rmetrics.KindUint64 && qs[1].Value.Kind() == rmetrics.KindUint64
}

var quiesceSpins, stackAudits, auditMismatch int64
var paranoid bool

// patient: during teardown a spinning / panicking loop is being stopped; give it the whole budget.
var patient bool
var auditEvery int64 = 64

// quiesce returns true when no goroutine other than the caller can make a step: with one P
// the caller is the only running goroutine; runnable == 0 and not-in-go == 0 mean every other
// goroutine is blocked (channel, mutex, cond, timer) or finished. The listener is in memory, so a
// goroutine waiting for the peer is a blocked goroutine too (no kernel sockets, no netpoll).
// The only things that can wake a goroutine afterwards are the explorer or a real timer; the real
// timers left in the process are long (gRPC keepalive >= 10 s, conn monitor 1 s tick that touches
// only gauges). False when the state is not reached within the budget: the execution is then
// inconclusive, never a violation.
func quiesce() bool {
	stable := 0
	start := time.Now()
	panicsAtStart := panicLogCount()
	lastNoAvail := noAvailCount()
	spinPasses := 0
	spinDetected = false
	for i := 0; ; i++ {
		runtime.Gosched()
		quiesceSpins++
		rmetrics.Read(qs)
		if qs[0].Value.Uint64() == 0 && qs[1].Value.Uint64() == 0 {
			stable++
			if stable >= 3 {
				stackAudits++
				if paranoid || stackAudits%auditEvery == 0 {
					if !stackQuiet() {
						auditMismatch++
						stable = 0
						continue
					}
				}
				return true
			}
		} else {
			stable = 0
			if i > 5000 && i%200 == 0 {
				time.Sleep(20 * time.Microsecond) // let a system call (log write) finish
			}
		}
		// Spin detection without a clock. Every return of Gosched above is one full pass of the run
		// queue: each runnable goroutine has run once. If in 40 consecutive passes the client's "no
		// available connection" counter moved every time, and the stack snapshots taken at every 10th
		// of these passes all show the send loop as the only goroutine of the program that is not
		// blocked, then it goes round getClientAndSend and nobody else will ever run to change what it sees.
		if n := noAvailCount(); n > lastNoAvail && !patient {
			spinPasses++
			lastNoAvail = n
			if spinPasses%10 == 0 {
				if only, inSendLoop := busyInSendLoop(); !(only && inSendLoop) {
					spinPasses = 0
				} else if spinPasses >= 40 {
					spinDetected = true
					return false
				}
			}
		} else {
			spinPasses = 0
			lastNoAvail = n
		}
		if i%64 == 63 {
			// (a wait that is about to establish a spin gets more time: on a loaded machine a pass takes long)
			if el := time.Since(start); el > 5*time.Second && (spinPasses < 10 || el > 40*time.Second) {
				if os.Getenv("VERIF_C18_DEBUG") != "" {
					only, in := busyInSendLoop()
					fmt.Fprintf(os.Stderr, "quiesce timeout: iterations=%d runnable=%d notingo=%d spinPasses=%d only=%v insend=%v busy=%s\n", i, qs[0].Value.Uint64(), qs[1].Value.Uint64(), spinPasses, only, in, busyGoroutines())
				}
				return false
			}
			if !patient && panicLogCount() >= panicsAtStart+4 {
				return false // a loop of the client panics and restarts again and again: reported by the caller
			}
		}
	}
}

// spinDetected: the last quiesce() ended because the send loop spins (see there).
var spinDetected bool

// busyInSendLoop: a stack snapshot shows exactly one goroutine (besides the caller) that is not
// blocked, and batchSendLoop is on its stack.
func busyInSendLoop() (only bool, inSendLoop bool) {
	buf := make([]byte, 1<<20)
	n := runtime.Stack(buf, true)
	busy := 0
	first := true
	for _, blk := range strings.Split(string(buf[:n]), "\n\n") {
		if !strings.HasPrefix(blk, "goroutine ") {
			continue
		}
		if first {
			first = false
			continue
		}
		hdr := blk
		if i := strings.IndexByte(blk, '\n'); i >= 0 {
			hdr = blk[:i]
		}
		if strings.Contains(hdr, "[runnable") || strings.Contains(hdr, "[running") || strings.Contains(hdr, "[syscall") {
			busy++
			if strings.Contains(blk, "(*batchConn).batchSendLoop") {
				inSendLoop = true
			}
		}
	}
	return busy == 1, inSendLoop
}

// stackQuiet is the independent cross-check: a full stack snapshot in which no goroutine other
// than the caller is runnable / running / in a system call.
func stackQuiet() bool {
	buf := make([]byte, 1<<20)
	for {
		n := runtime.Stack(buf, true)
		if n < len(buf) {
			buf = buf[:n]
			break
		}
		buf = make([]byte, 2*len(buf))
	}
	first := true
	for _, blk := range strings.Split(string(buf), "\n\n") {
		if !strings.HasPrefix(blk, "goroutine ") {
			continue
		}
		hdr := blk
		if i := strings.IndexByte(blk, '\n'); i >= 0 {
			hdr = blk[:i]
		}
		if first {
			first = false
			continue
		}
		if strings.Contains(hdr, "[runnable") || strings.Contains(hdr, "[running") || strings.Contains(hdr, "[syscall") || strings.Contains(hdr, "[GC assist") {
			if len(mismatchSamples) < 8 {
				lines := strings.Split(blk, "\n")
				if len(lines) > 7 {
					lines = lines[:7]
				}
				mismatchSamples = append(mismatchSamples, strings.Join(lines, " | "))
			}
			return false
		}
	}
	return true
}

var mismatchSamples []string

// ---------- virtual timers ----------

// vctl is the vtime.Controller of one execution. Timers never fire by themselves; the explorer
// fires the time-out timer of a caller (identified by its unique duration) as an event.
type vctl struct {
	mu     sync.Mutex
	ticks  int64
	timers map[*vtimer]struct{}
}

type vtimer struct {
	c    *vctl
	d    time.Duration
	fire func(time.Time)
}

var vbase = time.Date(2100, 1, 1, 0, 0, 0, 0, time.UTC)

func (c *vctl) Now() time.Time {
	return vbase.Add(time.Duration(atomic.AddInt64(&c.ticks, 1)) * time.Microsecond)
}
func (c *vctl) Sleep(d time.Duration) { time.Sleep(d) } // only reachable through failpoints (never enabled)
func (c *vctl) StartTimer(d time.Duration, fire func(time.Time)) vtime.Stopper {
	t := &vtimer{c: c, d: d, fire: fire}
	c.mu.Lock()
	c.timers[t] = struct{}{}
	c.mu.Unlock()
	return t
}
func (t *vtimer) Stop() bool {
	t.c.mu.Lock()
	defer t.c.mu.Unlock()
	if _, ok := t.c.timers[t]; ok {
		delete(t.c.timers, t)
		return true
	}
	return false
}

// fireByDuration fires every pending timer armed with exactly d; returns how many.
func (c *vctl) fireByDuration(d time.Duration) int {
	c.mu.Lock()
	var fs []*vtimer
	for t := range c.timers {
		if t.d == d {
			fs = append(fs, t)
			delete(c.timers, t)
		}
	}
	c.mu.Unlock()
	now := c.Now()
	for _, t := range fs {
		t.fire(now)
	}
	return len(fs)
}

func (c *vctl) pendingWith(d time.Duration) int {
	c.mu.Lock()
	defer c.mu.Unlock()
	n := 0
	for t := range c.timers {
		if t.d == d {
			n++
		}
	}
	return n
}

// ---------- scripted server ----------

type reqRec struct {
	ID       uint64
	Payload  string
	Stream   int // index into server.streams
	Answers  int // responses sent for it on its own stream while that was alive
	Stale    int // stale / duplicate responses sent for it
	BatchLen int // size of the BatchCommandsRequest it arrived in
}

type srvCmd struct {
	drop bool
	resp *tikvpb.BatchCommandsResponse
}

type streamRec struct {
	idx      int
	fwd      string
	connIdx  string
	gen      int32 // number of CloseAddr calls before the stream was created: streams of different pools (connections) never mix
	alive    bool
	cmd      chan srvCmd
	recvDone chan struct{}
	sendErr  error
}

type server struct {
	tikvpb.TikvServer
	mu      sync.Mutex
	streams []*streamRec
	reqs    []*reqRec
	batches int
	gen     int32
}

// BatchCommands never answers by itself: a reader goroutine records what arrives, the handler
// goroutine executes the explorer's commands (send this response / drop the stream).
func (s *server) BatchCommands(ss tikvpb.Tikv_BatchCommandsServer) error {
	st := &streamRec{alive: true, cmd: make(chan srvCmd, 64), recvDone: make(chan struct{}), gen: atomic.LoadInt32(&s.gen)}
	if md, ok := metadata.FromIncomingContext(ss.Context()); ok {
		if v := md.Get(fwdMetaKey); len(v) > 0 {
			st.fwd = v[0]
		}
		if v := md.Get("tikv-batch-conn-index"); len(v) > 0 {
			st.connIdx = v[0]
		}
	}
	s.mu.Lock()
	st.idx = len(s.streams)
	s.streams = append(s.streams, st)
	s.mu.Unlock()
	go func() {
		defer close(st.recvDone)
		for {
			req, err := ss.Recv()
			if err != nil {
				return
			}
			s.mu.Lock()
			s.batches++
			for i, id := range req.GetRequestIds() {
				p := "?"
				if i < len(req.Requests) {
					p = string(req.Requests[i].GetGet().GetKey())
				}
				s.reqs = append(s.reqs, &reqRec{ID: id, Payload: p, Stream: st.idx, BatchLen: len(req.GetRequestIds())})
			}
			s.mu.Unlock()
		}
	}()
	dead := func(err error) {
		s.mu.Lock()
		st.alive = false
		st.sendErr = err
		s.mu.Unlock()
	}
	for {
		select {
		case c := <-st.cmd:
			if c.drop {
				dead(nil)
				return status.Error(codes.Unavailable, dropMsg)
			}
			if err := ss.Send(c.resp); err != nil {
				dead(err)
				return err
			}
		case <-st.recvDone:
			dead(nil)
			return nil
		}
	}
}

func echoResp(reqs ...*reqRec) *tikvpb.BatchCommandsResponse {
	r := &tikvpb.BatchCommandsResponse{}
	for _, q := range reqs {
		r.RequestIds = append(r.RequestIds, q.ID)
		r.Responses = append(r.Responses, &tikvpb.BatchCommandsResponse_Response{
			Cmd: &tikvpb.BatchCommandsResponse_Response_Get{Get: &kvrpcpb.GetResponse{Value: []byte(q.Payload)}},
		})
	}
	return r
}

// ---------- callers ----------

const (
	vPlain = iota
	vHigh
	vFwd
	vAsync
)

var variantTag = map[int]string{vPlain: "", vHigh: "h", vFwd: "f", vAsync: "a"}

type caller struct {
	idx       int
	variant   int
	submitted bool
	cancel    context.CancelFunc
	timeout   time.Duration

	// written by the caller goroutine under world.mu
	returns  int
	noResp   bool // completed with neither a response nor an error
	value    string
	err      error
	panicked string

	// explorer's notes
	cancelled        bool
	timedOut         bool
	tainted          bool // reported as wrongly blocked earlier in this execution
	pendingAfterDrop bool // left pending by a failure of its stream (observation, not a violation)
}

func (c *caller) payload() string { return fmt.Sprintf("c%d", c.idx) }

// dialBudget is internal/client.dialTimeout: the (now virtual) budget of waitConnReady.
const dialBudget = 5 * time.Second

// settle = quiescence, then let every pending dial budget elapse (a send or recv loop that waits
// for a connection that will never be ready gives up after dialTimeout; the model treats that
// budget as short compared with the distance between two environment events), until nothing moves.
func (w *world) settle() bool {
	for round := 0; ; round++ {
		if !quiesce() {
			return false
		}
		if w.ctl.pendingWith(dialBudget) == 0 {
			return true
		}
		if w.withheld && !w.closed {
			// Part D: the connection is not ready yet and the explorer owns the dial budget (event DB): the send loop
			// stays blocked in waitConnReady - with the entries of its batch selected but not yet written - across
			// further events (time-outs, cancellations, submissions) until R (ready) or DB (budget elapsed).
			return true
		}
		if round >= 16 {
			return false
		}
		dialFires++
		w.ctl.fireByDuration(dialBudget)
	}
}

var dialFires int64

func callerTimeout(i int) time.Duration { return time.Duration(1000+i) * time.Second }

type world struct {
	cfg     Config
	mu      sync.Mutex
	srv     *server
	gs      *grpc.Server
	lis     *bufconn.Listener
	cli     *client.RPCClient
	ctl     *vctl
	ctx     context.Context
	stop    context.CancelFunc
	callers []*caller

	born          time.Time
	closed        bool // RPCClient.Close was called
	closeDone     int32
	addrClosed    int // number of CloseAddr events so far
	closeCalls    int32
	dropped       bool // some stream was dropped by the server
	droppedKinds  map[string]bool
	failNextSend  int32 // armed by event NS, consumed by the next SendMsg on a batch stream
	sendsFailed   int32
	sendFailArmed bool   // NS happened in this execution (an io.EOF failure has a cause)
	notes         []viol // observations made by check() during the current step
	knownLeak     bool   // the known, unclaimed entry leak may have happened (see perform, event D)
	acctReported  bool   // rule (c) was reported in this execution
	starved       bool   // rule (a) of the healthy-store oracle was violated in this execution
	// Part D: the store accepts the dial but the connection does not become ready before event R.
	withheld    bool          // the connection is still withheld (R has not happened)
	heldBefore  bool          // ... when the current event was performed
	raceSite    bool          // X happened while the connection was withheld (see raceDependent in explore.go)
	readyCh     chan struct{} // closed by R
	dialExpired bool          // event DB happened: "connection did not become ready" is a cause that exists
	heldAtStep  int           // (coverage) callers in flight, not written, while an event happened with the connection withheld
	acctChecks  int           // evaluations of the white-box accounting rule
	sendChecks  int           // evaluations of rule (a)
}

// maxExecWall: an execution normally takes 1-3 ms. The only wall-clock assumption of the check is
// that no real timer of gRPC / the client fires inside an execution (the shortest one that could
// matter is gRPC's 100 ms reconnect back-off, then the 1 s monitor tick and the 10 s keepalive).
// An execution that took longer than this (machine overloaded, process stalled) is discarded as
// inconclusive and repeated; it can never produce a violation.
const maxExecWall = 500 * time.Millisecond

func (w *world) tooSlow() bool { return time.Since(w.born) > maxExecWall }

// noDeadlineConn drops I/O deadlines. gRPC arms a 1 s read and a 10 s write deadline when it closes
// a client transport (a safety net for peers that do not react; the in-memory pipe is closed right
// after); bufconn implements deadlines with real time.AfterFunc timers, which would keep every closed
// world alive for 10 s and fire inside later executions of the same process.
type noDeadlineConn struct{ net.Conn }

func (noDeadlineConn) SetDeadline(time.Time) error      { return nil }
func (noDeadlineConn) SetReadDeadline(time.Time) error  { return nil }
func (noDeadlineConn) SetWriteDeadline(time.Time) error { return nil }

type failableStream struct {
	grpc.ClientStream
	w *world
}

func (f *failableStream) SendMsg(m any) error {
	if atomic.CompareAndSwapInt32(&f.w.failNextSend, 1, 0) {
		atomic.AddInt32(&f.w.sendsFailed, 1)
		return io.EOF
	}
	return f.ClientStream.SendMsg(m)
}

func newWorld(cfg Config) *world {
	w := &world{cfg: cfg, srv: &server{}, ctl: &vctl{timers: map[*vtimer]struct{}{}}, born: time.Now()}
	w.ctx, w.stop = context.WithCancel(context.Background())
	vtime.SetController(w.ctl)
	ctl := w.ctl
	vctx.SetStarter(func(d time.Duration, fire func()) func() bool {
		return ctl.StartTimer(d, func(time.Time) { fire() }).Stop
	})
	if cfg.Part == "D" {
		w.withheld, w.readyCh = true, make(chan struct{})
	}
	ready := w.readyCh
	w.lis = bufconn.Listen(32 << 10) // small: gRPC keeps a closed pipe alive for up to 10 s through its deadline timers
	w.gs = grpc.NewServer()
	tikvpb.RegisterTikvServer(w.gs, w.srv)
	lis := w.lis
	gs := w.gs
	go func() { _ = gs.Serve(lis) }()
	w.cli = client.NewRPCClient(client.WithGRPCDialOptions(
		grpc.WithContextDialer(func(ctx context.Context, _ string) (net.Conn, error) {
			if ready != nil {
				// Part D: a store that accepts the connection but does not complete the handshake: gRPC stays in
				// CONNECTING (a blocked goroutine, visible to the quiescence test) until the explorer's event R.
				select {
				case <-ready:
				case <-ctx.Done():
					return nil, ctx.Err()
				}
			}
			c, err := lis.DialContext(ctx)
			if err != nil {
				return nil, err
			}
			return noDeadlineConn{c}, nil
		}),
		// Event NS ("next send fails"): the next SendMsg on a BatchCommands stream of this client returns
		// io.EOF without writing anything - what gRPC reports when a batch is written to a stream that the
		// server has already ended but whose failure the recv loop has not processed yet.
		grpc.WithChainStreamInterceptor(func(ctx context.Context, desc *grpc.StreamDesc, cc *grpc.ClientConn, method string, streamer grpc.Streamer, opts ...grpc.CallOption) (grpc.ClientStream, error) {
			cs, err := streamer(ctx, desc, cc, method, opts...)
			if err != nil || !strings.HasSuffix(method, "/BatchCommands") {
				return cs, err
			}
			return &failableStream{ClientStream: cs, w: w}, nil
		}),
	))
	for i := 0; i < cfg.Callers; i++ {
		w.callers = append(w.callers, &caller{idx: i, timeout: callerTimeout(i)})
	}
	return w
}

// teardown releases everything of this execution; afterwards only goroutines blocked for ever
// (none expected) could remain.
func (w *world) teardown() bool {
	patient = true
	defer func() { patient = false }()
	// Cancel the callers first, while the run loops of the async callers still serve: a cancelled async
	// entry is completed through its run loop (context.AfterFunc -> callback.Schedule), and cancelled
	// entries are dropped from the send loop's queue.
	for _, c := range w.callers {
		if c.cancel != nil {
			c.cancel()
		}
	}
	w.settle()
	if !w.closed {
		w.closed = true
		cli := w.cli
		go func() { cli.Close() }()
		w.settle()
	}
	w.stop()
	gs := w.gs
	go func() { gs.Stop() }()
	quiesce()
	w.lis.Close()
	ok := quiesce() // only the final state counts: is anything of this execution still running?
	if !ok {
		poisoned = true
		poisonedWhy = "still running after teardown: " + busyGoroutines()
	}
	return ok
}

// poisoned: a goroutine of a finished execution keeps running (could not be stopped); no further
// execution in this process can reach quiescence, the worker process has to be replaced.
var poisoned bool
var poisonedWhy string

func noAvailCount() float64 {
	var m dto.Metric
	if err := metrics.TiKVNoAvailableConnectionCounter.Write(&m); err != nil || m.Counter == nil {
		return 0
	}
	return m.Counter.GetValue()
}

// busyGoroutines describes (function names only) the goroutines that are not blocked; diagnostics
// for executions that do not become quiet.
func busyGoroutines() string {
	buf := make([]byte, 1<<20)
	n := runtime.Stack(buf, true)
	var out []string
	first := true
	for _, blk := range strings.Split(string(buf[:n]), "\n\n") {
		if !strings.HasPrefix(blk, "goroutine ") {
			continue
		}
		lines := strings.Split(blk, "\n")
		if first {
			first = false
			continue
		}
		if strings.Contains(lines[0], "[runnable") || strings.Contains(lines[0], "[running") || strings.Contains(lines[0], "[syscall") {
			fn := "?"
			for _, l := range lines[1:] {
				if !strings.HasPrefix(l, "\t") && !strings.HasPrefix(l, "runtime.") && !strings.HasPrefix(l, "created by") {
					fn = l
					if i := strings.IndexByte(fn, '('); i > 0 {
						fn = fn[:i]
					}
					break
				}
			}
			out = append(out, fn)
		}
	}
	sort.Strings(out)
	if len(out) > 4 {
		out = out[:4]
	}
	return strings.Join(out, ",")
}

func (w *world) submit(c *caller, variant int) {
	c.variant = variant
	c.submitted = true
	ctx, cancel := context.WithCancel(w.ctx)
	c.cancel = cancel
	kctx := kvrpcpb.Context{}
	if variant == vHigh {
		kctx.ResourceControlContext = &kvrpcpb.ResourceControlContext{OverridePriority: 16}
	}
	req := tikvrpc.NewRequest(tikvrpc.CmdGet, &kvrpcpb.GetRequest{Key: []byte(c.payload())}, kctx)
	if variant == vFwd {
		req.ForwardedHost = fwdHost
	}
	cli := w.cli
	record := func(resp *tikvrpc.Response, err error) {
		w.mu.Lock()
		defer w.mu.Unlock()
		c.returns++
		if c.returns > 1 {
			return
		}
		c.err = err
		if err == nil {
			if resp == nil || resp.Resp == nil {
				c.noResp = true
				c.value = "<nil response>"
			} else if g, ok := resp.Resp.(*kvrpcpb.GetResponse); ok {
				c.value = string(g.Value)
			} else {
				c.value = fmt.Sprintf("<%T>", resp.Resp)
			}
		}
	}
	guard := func() {
		if r := recover(); r != nil {
			w.mu.Lock()
			c.panicked = fmt.Sprint(r)
			w.mu.Unlock()
		}
	}
	if variant != vAsync {
		go func() {
			defer guard()
			resp, err := cli.SendRequest(ctx, storeAddr, req, c.timeout)
			record(resp, err)
		}()
		return
	}
	go func() {
		defer guard()
		rl := async.NewRunLoop()
		cb := async.NewCallback(rl, record)
		cli.SendRequestAsync(ctx, storeAddr, req, cb)
		// Keep serving the run loop until the world ends so that a second completion would be seen.
		for w.ctx.Err() == nil {
			_, _ = rl.Exec(w.ctx)
		}
	}()
}

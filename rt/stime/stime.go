// Package stime is an API-compatible stand-in for the parts of package time
// used by the rewritten client-go packages. While a controlled execution is
// active (sched.Active) the clock is virtual and every sleep / timer / ticker
// is a virtual timer fired by the explorer; otherwise it behaves like the real
// package time.
package stime

import (
	"runtime"
	"strings"
	"time"

	"github.com/tikv/client-go/v2/verifrt/sched"
)

type (
	Duration = time.Duration
	Time     = time.Time
	Month    = time.Month
	Location = time.Location
)

const (
	Nanosecond  = time.Nanosecond
	Microsecond = time.Microsecond
	Millisecond = time.Millisecond
	Second      = time.Second
	Minute      = time.Minute
	Hour        = time.Hour

	RFC3339     = time.RFC3339
	RFC3339Nano = time.RFC3339Nano
)

var (
	UTC   = time.UTC
	Local = time.Local
)

func ParseDuration(s string) (Duration, error) { return time.ParseDuration(s) }
func Parse(layout, value string) (Time, error) { return time.Parse(layout, value) }
func Unix(sec, nsec int64) Time                { return time.Unix(sec, nsec) }
func UnixMilli(ms int64) Time                  { return time.UnixMilli(ms) }
func UnixMicro(us int64) Time                  { return time.UnixMicro(us) }
func Date(year int, month Month, day, hour, min, sec, nsec int, loc *Location) Time {
	return time.Date(year, month, day, hour, min, sec, nsec, loc)
}

func Now() Time {
	if sched.Active() {
		return sched.Now()
	}
	return time.Now()
}

func Since(t Time) Duration { return Now().Sub(t) }
func Until(t Time) Duration { return t.Sub(Now()) }

func Sleep(d Duration) {
	if sched.Closing() {
		return
	}
	if !sched.Active() {
		time.Sleep(d)
		return
	}
	ch := make(chan struct{}, 1)
	sched.AddTimer(d, 0, "sleep:"+d.String(), func(int64) { ch <- struct{}{} })
	<-ch
}

func After(d Duration) <-chan Time {
	if sched.Closing() {
		ch := make(chan Time, 1)
		ch <- time.Now()
		return ch
	}
	if !sched.Active() {
		return time.After(d)
	}
	ch := make(chan Time, 1)
	sched.AddTimer(d, 0, "after:"+d.String(), func(now int64) { ch <- sched.T0.Add(Duration(now)) })
	return ch
}

// Timer mirrors time.Timer.
type Timer struct {
	C  <-chan Time
	c  chan Time
	vt *sched.Timer
	rt *time.Timer
}

func NewTimer(d Duration) *Timer {
	if sched.Closing() {
		d = 0
	}
	if !sched.Active() {
		rt := time.NewTimer(d)
		return &Timer{C: rt.C, rt: rt}
	}
	c := make(chan Time, 1)
	t := &Timer{C: c, c: c}
	t.vt = sched.AddTimer(d, 0, "timer:"+d.String(), func(now int64) {
		select {
		case c <- sched.T0.Add(Duration(now)):
		default:
		}
	})
	return t
}

func (t *Timer) Stop() bool {
	if t.rt != nil {
		return t.rt.Stop()
	}
	return sched.StopTimer(t.vt)
}

func (t *Timer) Reset(d Duration) bool {
	if t.rt != nil {
		return t.rt.Reset(d)
	}
	return sched.ResetTimer(t.vt, d)
}

func AfterFunc(d Duration, f func()) *Timer {
	if !sched.Active() {
		return &Timer{rt: time.AfterFunc(d, f)}
	}
	t := &Timer{}
	t.vt = sched.AddTimer(d, 0, "afterfunc:"+d.String(), func(int64) { go f() })
	return t
}

// Ticker mirrors time.Ticker.
type Ticker struct {
	C  <-chan Time
	vt *sched.Timer
	rt *time.Ticker
}

func NewTicker(d Duration) *Ticker {
	if sched.Closing() {
		d = 24 * time.Hour
	}
	if !sched.Active() {
		rt := time.NewTicker(d)
		return &Ticker{C: rt.C, rt: rt}
	}
	c := make(chan Time, 1)
	t := &Ticker{C: c}
	t.vt = sched.AddTimer(d, d, "ticker:"+callerName()+":"+d.String(), func(now int64) {
		select {
		case c <- sched.T0.Add(Duration(now)):
		default:
		}
	})
	return t
}

func (t *Ticker) Stop() {
	if t.rt != nil {
		t.rt.Stop()
		return
	}
	sched.StopTimer(t.vt)
}

func (t *Ticker) Reset(d Duration) {
	if t.rt != nil {
		t.rt.Reset(d)
		return
	}
	t.vt.Period = int64(d)
	sched.ResetTimer(t.vt, d)
}

func Tick(d Duration) <-chan Time { return NewTicker(d).C }

// callerName returns the short name of the function that created a ticker (stable label).
func callerName() string {
	pc, _, _, ok := runtime.Caller(2)
	if !ok {
		return "?"
	}
	n := runtime.FuncForPC(pc).Name()
	if i := strings.LastIndex(n, "/"); i >= 0 {
		n = n[i+1:]
	}
	return n
}

// Package c10rand replaces math/rand in config/retry/config.go for the C10
// harness (profile c10): the jitter of a back-off step becomes a deterministic
// function of the process-wide mode, so that the accounted sleep the oracle
// reads is reproducible. Mode 0: largest jitter (Intn(n) = n-1), mode 1:
// smallest (0). The mode is changed only between enumeration phases.
package c10rand

import "sync/atomic"

var mode atomic.Int32

// SetMode selects the jitter answer for the whole process.
func SetMode(m int) { mode.Store(int32(m)) }

// Intn answers a draw from [0,n).
func Intn(n int) int {
	if n <= 0 {
		panic("c10rand: Intn with n <= 0")
	}
	if mode.Load() == 0 {
		return n - 1
	}
	return 0
}

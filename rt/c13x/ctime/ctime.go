// Package ctime is a copy of verifrt/stime for oracle/oracles/pd.go (C13) with one
// difference: a Ticker created while a controlled execution is active is NOT registered with the
// scheduler's timer list; it is kept in a registry of this package and fired by the scenario
// itself (Fire) as one of its own environment transitions. The C13 scenario needs that because
// the explorer's built-in tick transition cannot be made conditional: pdOracle.updateTS selects
// on the ticker and on a second channel, and Go's select picks at random when both are ready,
// which would be nondeterminism the explorer does not own. The scenario therefore offers a tick
// only while the updateTS goroutine is idle in its select. Clock, sleeps and one-shot timers are
// exactly those of stime (virtual timers of verifrt/sched).
package ctime

import (
	"runtime"
	"strings"
	"sync"
	"time"

	"github.com/tikv/client-go/v2/verifrt/sched"
)

type (
	Duration = time.Duration
	Time     = time.Time
	Month    = time.Month
	Location = time.Location
)

const (
	Nanosecond  = time.Nanosecond
	Microsecond = time.Microsecond
	Millisecond = time.Millisecond
	Second      = time.Second
	Minute      = time.Minute
	Hour        = time.Hour

	RFC3339     = time.RFC3339
	RFC3339Nano = time.RFC3339Nano
)

var (
	UTC   = time.UTC
	Local = time.Local
)

func ParseDuration(s string) (Duration, error) { return time.ParseDuration(s) }
func Parse(layout, value string) (Time, error) { return time.Parse(layout, value) }
func Unix(sec, nsec int64) Time                { return time.Unix(sec, nsec) }
func UnixMilli(ms int64) Time                  { return time.UnixMilli(ms) }
func UnixMicro(us int64) Time                  { return time.UnixMicro(us) }
func Date(year int, month Month, day, hour, min, sec, nsec int, loc *Location) Time {
	return time.Date(year, month, day, hour, min, sec, nsec, loc)
}

func Now() Time {
	if sched.Active() {
		return sched.Now()
	}
	return time.Now()
}

func Since(t Time) Duration { return Now().Sub(t) }
func Until(t Time) Duration { return t.Sub(Now()) }

func Sleep(d Duration) {
	if sched.Closing() {
		return
	}
	if !sched.Active() {
		time.Sleep(d)
		return
	}
	ch := make(chan struct{}, 1)
	sched.AddTimer(d, 0, "sleep:"+d.String(), func(int64) { ch <- struct{}{} })
	<-ch
}

func After(d Duration) <-chan Time {
	if sched.Closing() {
		ch := make(chan Time, 1)
		ch <- time.Now()
		return ch
	}
	if !sched.Active() {
		return time.After(d)
	}
	ch := make(chan Time, 1)
	sched.AddTimer(d, 0, "after:"+d.String(), func(now int64) { ch <- sched.T0.Add(Duration(now)) })
	return ch
}

// Timer mirrors time.Timer.
type Timer struct {
	C  <-chan Time
	c  chan Time
	vt *sched.Timer
	rt *time.Timer
}

func NewTimer(d Duration) *Timer {
	if sched.Closing() {
		d = 0
	}
	if !sched.Active() {
		rt := time.NewTimer(d)
		return &Timer{C: rt.C, rt: rt}
	}
	c := make(chan Time, 1)
	t := &Timer{C: c, c: c}
	t.vt = sched.AddTimer(d, 0, "timer:"+d.String(), func(now int64) {
		select {
		case c <- sched.T0.Add(Duration(now)):
		default:
		}
	})
	return t
}

func (t *Timer) Stop() bool {
	if t.rt != nil {
		return t.rt.Stop()
	}
	return sched.StopTimer(t.vt)
}

func (t *Timer) Reset(d Duration) bool {
	if t.rt != nil {
		return t.rt.Reset(d)
	}
	return sched.ResetTimer(t.vt, d)
}

func AfterFunc(d Duration, f func()) *Timer {
	if !sched.Active() {
		return &Timer{rt: time.AfterFunc(d, f)}
	}
	t := &Timer{}
	t.vt = sched.AddTimer(d, 0, "afterfunc:"+d.String(), func(int64) { go f() })
	return t
}

// Ticker mirrors time.Ticker.
type Ticker struct {
	C  <-chan Time
	rt *time.Ticker

	// virtual ticker state (owned by the explorer goroutine / the goroutine under test at quiescence)
	c        chan Time
	Label    string
	deadline int64 // virtual ns
	period   int64
	stopped  bool
	gen      int64
}

var (
	regMu   sync.Mutex
	tickers []*Ticker
)

// Tickers returns the live virtual tickers of the current execution, in creation order.
func Tickers() []*Ticker {
	g := sched.Gen()
	regMu.Lock()
	defer regMu.Unlock()
	var out []*Ticker
	keep := tickers[:0]
	for _, t := range tickers {
		if t.gen != g {
			continue // left over from an earlier execution
		}
		keep = append(keep, t)
		if !t.stopped {
			out = append(out, t)
		}
	}
	tickers = keep
	return out
}

// Pending reports whether a tick is waiting in the ticker's channel.
func (t *Ticker) Pending() bool { return len(t.c) > 0 }

// Period returns the current period of a virtual ticker.
func (t *Ticker) Period() Duration {
	regMu.Lock()
	defer regMu.Unlock()
	return Duration(t.period)
}

// Fire delivers one tick: the virtual clock moves to the ticker's deadline if that is later
// (time passes until the tick is due), the next deadline is one period later, and the tick
// time is sent unless one is still waiting (as time.Ticker drops ticks for slow receivers).
// Must be called by the explorer goroutine at a decision point.
func (t *Ticker) Fire() {
	regMu.Lock()
	if t.stopped || t.rt != nil {
		regMu.Unlock()
		return
	}
	now := sched.NowNS()
	if t.deadline > now {
		sched.Advance(Duration(t.deadline - now))
		now = t.deadline
	}
	t.deadline = now + t.period
	regMu.Unlock()
	select {
	case t.c <- sched.T0.Add(Duration(now)):
	default:
	}
}

func NewTicker(d Duration) *Ticker {
	if sched.Closing() {
		d = 24 * time.Hour
	}
	if !sched.Active() {
		rt := time.NewTicker(d)
		return &Ticker{C: rt.C, rt: rt}
	}
	if d <= 0 {
		panic("non-positive interval for NewTicker")
	}
	c := make(chan Time, 1)
	t := &Ticker{C: c, c: c, Label: "ticker:" + callerName() + ":" + d.String(), deadline: sched.NowNS() + int64(d), period: int64(d), gen: sched.Gen()}
	regMu.Lock()
	tickers = append(tickers, t)
	regMu.Unlock()
	return t
}

func (t *Ticker) Stop() {
	if t.rt != nil {
		t.rt.Stop()
		return
	}
	regMu.Lock()
	t.stopped = true
	regMu.Unlock()
}

func (t *Ticker) Reset(d Duration) {
	if t.rt != nil {
		t.rt.Reset(d)
		return
	}
	if d <= 0 {
		panic("non-positive interval for Ticker.Reset")
	}
	regMu.Lock()
	t.stopped = false
	t.period = int64(d)
	t.deadline = sched.NowNS() + int64(d)
	regMu.Unlock()
}

func Tick(d Duration) <-chan Time { return NewTicker(d).C }

// callerName returns the short name of the function that created a ticker (stable label).
func callerName() string {
	pc, _, _, ok := runtime.Caller(2)
	if !ok {
		return "?"
	}
	n := runtime.FuncForPC(pc).Name()
	if i := strings.LastIndex(n, "/"); i >= 0 {
		n = n[i+1:]
	}
	return n
}

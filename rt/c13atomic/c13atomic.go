// Package c13atomic is an API-compatible stand-in for the parts of sync/atomic
// used by oracle/oracles/pd.go (C13). Every type wraps the real one. While the
// harness has switched points on (Enable) and the calling goroutine belongs to
// a registered actor, each Load / Store / Swap / CompareAndSwap / Add first
// parks at sched.Point(actor, KOther, "atomic:<op>") so that the explorer
// decides how the steps of concurrent callers interleave (setLastTS's
// Load ... CompareAndSwap loop in particular). In every other situation
// (points off, unknown goroutine, no controlled execution) it behaves exactly
// like sync/atomic.
//
// Goroutine -> actor: the driver registers its caller goroutines (Register);
// a goroutine started by a registered goroutine inherits its actor (looked up
// once from the "created by ... in goroutine N" trailer of its own stack), so
// the singleflight goroutine of ValidateReadTS acts for the caller that
// started the flight; RegisterSpawner makes the children of the calling
// goroutine (the explorer goroutine running Setup -> `go o.updateTS`) belong
// to an actor without registering the goroutine itself.
package c13atomic

import (
	"bytes"
	"runtime"
	"strconv"
	"sync"
	"sync/atomic"

	"github.com/tikv/client-go/v2/verifrt/sched"
)

var (
	on   atomic.Bool // points for Pointer[T] operations
	ints atomic.Bool // points for integer operations as well

	mu      sync.Mutex
	actors  = map[uint64]int{}  // goroutine id -> actor
	spawner = map[uint64]int{}  // goroutine id -> actor of its children
	unknown = map[uint64]bool{} // goroutines known to belong to nobody

	// Ops counts operations that went through a point (diagnostics / evidence).
	Ops atomic.Int64
)

// Enable switches points on: pointer operations always, integer operations if withInts.
func Enable(withInts bool) {
	ints.Store(withInts)
	on.Store(true)
}

// Disable switches all points off (pass-through).
func Disable() {
	on.Store(false)
	ints.Store(false)
}

// Reset forgets all registrations and switches points off.
func Reset() {
	Disable()
	mu.Lock()
	actors = map[uint64]int{}
	spawner = map[uint64]int{}
	unknown = map[uint64]bool{}
	mu.Unlock()
}

// Register makes the calling goroutine (and the goroutines it starts) act for actor.
func Register(actor int) {
	g := goid()
	mu.Lock()
	actors[g] = actor
	delete(unknown, g)
	mu.Unlock()
}

// RegisterSpawner makes goroutines started by the calling goroutine act for
// actor; the calling goroutine itself stays unregistered.
func RegisterSpawner(actor int) {
	g := goid()
	mu.Lock()
	spawner[g] = actor
	mu.Unlock()
}

// UnregisterSpawner removes the calling goroutine's spawner entry.
func UnregisterSpawner() {
	g := goid()
	mu.Lock()
	delete(spawner, g)
	mu.Unlock()
}

// ActorOf returns the actor of the calling goroutine.
func ActorOf() (int, bool) {
	g := goid()
	mu.Lock()
	if a, ok := actors[g]; ok {
		mu.Unlock()
		return a, true
	}
	if unknown[g] {
		mu.Unlock()
		return 0, false
	}
	mu.Unlock()
	p, ok := parentGoid()
	mu.Lock()
	defer mu.Unlock()
	if ok {
		if a, ok := actors[p]; ok {
			actors[g] = a
			return a, true
		}
		if a, ok := spawner[p]; ok {
			actors[g] = a
			return a, true
		}
	}
	unknown[g] = true
	return 0, false
}

var goroutinePrefix = []byte("goroutine ")

// goid parses the id of the calling goroutine from its stack header.
func goid() uint64 {
	var buf [48]byte
	n := runtime.Stack(buf[:], false)
	b := buf[:n]
	b = bytes.TrimPrefix(b, goroutinePrefix)
	i := bytes.IndexByte(b, ' ')
	if i < 0 {
		return 0
	}
	id, _ := strconv.ParseUint(string(b[:i]), 10, 64)
	return id
}

var inGoroutine = []byte(" in goroutine ")

// parentGoid parses "created by f in goroutine N" from the calling goroutine's stack.
func parentGoid() (uint64, bool) {
	buf := make([]byte, 16<<10)
	for {
		n := runtime.Stack(buf, false)
		if n < len(buf) {
			buf = buf[:n]
			break
		}
		if len(buf) >= 4<<20 {
			return 0, false
		}
		buf = make([]byte, 2*len(buf))
	}
	i := bytes.LastIndex(buf, inGoroutine)
	if i < 0 {
		return 0, false
	}
	b := buf[i+len(inGoroutine):]
	j := 0
	for j < len(b) && b[j] >= '0' && b[j] <= '9' {
		j++
	}
	id, err := strconv.ParseUint(string(b[:j]), 10, 64)
	return id, err == nil
}

func ptrPoint(op string) {
	if !on.Load() {
		return
	}
	if a, ok := ActorOf(); ok {
		Ops.Add(1)
		sched.Point(a, sched.KOther, "atomic:ptr."+op, nil)
	}
}

func intPoint(op string) {
	if !on.Load() || !ints.Load() {
		return
	}
	if a, ok := ActorOf(); ok {
		Ops.Add(1)
		sched.Point(a, sched.KOther, "atomic:int."+op, nil)
	}
}

// ---- Pointer[T] ----

// Pointer mirrors atomic.Pointer.
type Pointer[T any] struct {
	v atomic.Pointer[T]
}

func (p *Pointer[T]) Load() *T     { ptrPoint("Load"); return p.v.Load() }
func (p *Pointer[T]) Store(val *T) { ptrPoint("Store"); p.v.Store(val) }
func (p *Pointer[T]) Swap(new *T) (old *T) {
	ptrPoint("Swap")
	return p.v.Swap(new)
}
func (p *Pointer[T]) CompareAndSwap(old, new *T) (swapped bool) {
	ptrPoint("CompareAndSwap")
	return p.v.CompareAndSwap(old, new)
}

// ---- Bool (never a point: a configuration flag) ----

// Bool mirrors atomic.Bool.
type Bool struct {
	v atomic.Bool
}

func (x *Bool) Load() bool                            { return x.v.Load() }
func (x *Bool) Store(val bool)                        { x.v.Store(val) }
func (x *Bool) Swap(new bool) (old bool)              { return x.v.Swap(new) }
func (x *Bool) CompareAndSwap(old, new bool) (s bool) { return x.v.CompareAndSwap(old, new) }

// ---- integers ----

// Int64 mirrors atomic.Int64.
type Int64 struct {
	v atomic.Int64
}

func (x *Int64) Load() int64                { intPoint("Load"); return x.v.Load() }
func (x *Int64) Store(val int64)            { intPoint("Store"); x.v.Store(val) }
func (x *Int64) Swap(new int64) (old int64) { intPoint("Swap"); return x.v.Swap(new) }
func (x *Int64) Add(delta int64) (new int64) {
	intPoint("Add")
	return x.v.Add(delta)
}
func (x *Int64) CompareAndSwap(old, new int64) (swapped bool) {
	intPoint("CompareAndSwap")
	return x.v.CompareAndSwap(old, new)
}

// Uint64 mirrors atomic.Uint64.
type Uint64 struct {
	v atomic.Uint64
}

func (x *Uint64) Load() uint64                 { intPoint("Load"); return x.v.Load() }
func (x *Uint64) Store(val uint64)             { intPoint("Store"); x.v.Store(val) }
func (x *Uint64) Swap(new uint64) (old uint64) { intPoint("Swap"); return x.v.Swap(new) }
func (x *Uint64) Add(delta uint64) (new uint64) {
	intPoint("Add")
	return x.v.Add(delta)
}
func (x *Uint64) CompareAndSwap(old, new uint64) (swapped bool) {
	intPoint("CompareAndSwap")
	return x.v.CompareAndSwap(old, new)
}

// Int32 mirrors atomic.Int32.
type Int32 struct {
	v atomic.Int32
}

func (x *Int32) Load() int32                { intPoint("Load"); return x.v.Load() }
func (x *Int32) Store(val int32)            { intPoint("Store"); x.v.Store(val) }
func (x *Int32) Swap(new int32) (old int32) { intPoint("Swap"); return x.v.Swap(new) }
func (x *Int32) Add(delta int32) (new int32) {
	intPoint("Add")
	return x.v.Add(delta)
}
func (x *Int32) CompareAndSwap(old, new int32) (swapped bool) {
	intPoint("CompareAndSwap")
	return x.v.CompareAndSwap(old, new)
}

// Uint32 mirrors atomic.Uint32.
type Uint32 struct {
	v atomic.Uint32
}

func (x *Uint32) Load() uint32                 { intPoint("Load"); return x.v.Load() }
func (x *Uint32) Store(val uint32)             { intPoint("Store"); x.v.Store(val) }
func (x *Uint32) Swap(new uint32) (old uint32) { intPoint("Swap"); return x.v.Swap(new) }
func (x *Uint32) Add(delta uint32) (new uint32) {
	intPoint("Add")
	return x.v.Add(delta)
}
func (x *Uint32) CompareAndSwap(old, new uint32) (swapped bool) {
	intPoint("CompareAndSwap")
	return x.v.CompareAndSwap(old, new)
}

// ---- function forms ----

func LoadInt64(addr *int64) int64         { intPoint("Load"); return atomic.LoadInt64(addr) }
func StoreInt64(addr *int64, val int64)   { intPoint("Store"); atomic.StoreInt64(addr, val) }
func AddInt64(addr *int64, d int64) int64 { intPoint("Add"); return atomic.AddInt64(addr, d) }
func SwapInt64(addr *int64, new int64) int64 {
	intPoint("Swap")
	return atomic.SwapInt64(addr, new)
}
func CompareAndSwapInt64(addr *int64, old, new int64) bool {
	intPoint("CompareAndSwap")
	return atomic.CompareAndSwapInt64(addr, old, new)
}
func LoadUint64(addr *uint64) uint64          { intPoint("Load"); return atomic.LoadUint64(addr) }
func StoreUint64(addr *uint64, val uint64)    { intPoint("Store"); atomic.StoreUint64(addr, val) }
func AddUint64(addr *uint64, d uint64) uint64 { intPoint("Add"); return atomic.AddUint64(addr, d) }
func SwapUint64(addr *uint64, new uint64) uint64 {
	intPoint("Swap")
	return atomic.SwapUint64(addr, new)
}
func CompareAndSwapUint64(addr *uint64, old, new uint64) bool {
	intPoint("CompareAndSwap")
	return atomic.CompareAndSwapUint64(addr, old, new)
}
func LoadInt32(addr *int32) int32         { intPoint("Load"); return atomic.LoadInt32(addr) }
func StoreInt32(addr *int32, val int32)   { intPoint("Store"); atomic.StoreInt32(addr, val) }
func AddInt32(addr *int32, d int32) int32 { intPoint("Add"); return atomic.AddInt32(addr, d) }
func CompareAndSwapInt32(addr *int32, old, new int32) bool {
	intPoint("CompareAndSwap")
	return atomic.CompareAndSwapInt32(addr, old, new)
}
func LoadUint32(addr *uint32) uint32          { intPoint("Load"); return atomic.LoadUint32(addr) }
func StoreUint32(addr *uint32, val uint32)    { intPoint("Store"); atomic.StoreUint32(addr, val) }
func AddUint32(addr *uint32, d uint32) uint32 { intPoint("Add"); return atomic.AddUint32(addr, d) }
func CompareAndSwapUint32(addr *uint32, old, new uint32) bool {
	intPoint("CompareAndSwap")
	return atomic.CompareAndSwapUint32(addr, old, new)
}

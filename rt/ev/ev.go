// Package ev is the reporting side shared by all harnesses: violations with
// stable keys, the known-findings filter, replay files and the evidence file.
package ev

import (
	"bufio"
	"encoding/json"
	"fmt"
	"os"
	"path/filepath"
	"sort"
	"strconv"
	"strings"
	"sync"
	"time"
)

// Run collects the outcome of one check run.
type Run struct {
	Property string
	Tier     string
	Seed     int
	Level    string
	Dir      string // /verif
	OutDir   string // where evidence/ and replays/ are written (VERIF_EVIDENCE_DIR, default Dir)

	mu         sync.Mutex
	start      time.Time
	deadline   time.Time
	known      map[string]string // key -> what
	knownHit   map[string]int
	viol       map[string]*violation // by key, first one kept
	violCount  int
	notes      []string
	incomplete []string
}

type violation struct {
	Key    string
	What   string
	Replay any
	Path   string
	Count  int
}

// Start reads VERIF_TIER / VERIF_SEED / VERIF_DIR / VERIF_BUDGET_S and the known-findings file.
func Start(property, level string) *Run {
	r := &Run{Property: property, Level: level, start: time.Now(),
		known: map[string]string{}, knownHit: map[string]int{}, viol: map[string]*violation{}}
	r.Tier = os.Getenv("VERIF_TIER")
	if r.Tier != "thorough" {
		r.Tier = "quick"
	}
	r.Seed, _ = strconv.Atoi(os.Getenv("VERIF_SEED"))
	r.Dir = os.Getenv("VERIF_DIR")
	if r.Dir == "" {
		r.Dir = "/verif"
	}
	budget := 0
	if s := os.Getenv("VERIF_BUDGET_S"); s != "" {
		budget, _ = strconv.Atoi(s)
	}
	if budget > 0 {
		r.deadline = r.start.Add(time.Duration(budget) * time.Second)
	}
	r.OutDir = os.Getenv("VERIF_EVIDENCE_DIR")
	if r.OutDir == "" {
		r.OutDir = r.Dir
	}
	r.loadKnown()
	return r
}

func (r *Run) Quick() bool    { return r.Tier == "quick" }
func (r *Run) Thorough() bool { return r.Tier == "thorough" }

// Expired reports whether the optional wall-clock budget is used up. A harness
// that stops because of it must call Incomplete.
func (r *Run) Expired() bool {
	return !r.deadline.IsZero() && time.Now().After(r.deadline)
}

// Incomplete records that some part of the space was not explored (cap or budget).
func (r *Run) Incomplete(why string) {
	r.mu.Lock()
	defer r.mu.Unlock()
	for _, w := range r.incomplete {
		if w == why {
			return
		}
	}
	r.incomplete = append(r.incomplete, why)
}

func (r *Run) Note(format string, a ...any) {
	r.mu.Lock()
	defer r.mu.Unlock()
	if len(r.notes) < 50 {
		r.notes = append(r.notes, fmt.Sprintf(format, a...))
	}
}

func (r *Run) loadKnown() {
	f, err := os.Open(filepath.Join(r.Dir, "known_findings.txt"))
	if err != nil {
		return
	}
	defer f.Close()
	sc := bufio.NewScanner(f)
	for sc.Scan() {
		line := strings.TrimSpace(sc.Text())
		if !strings.HasPrefix(line, "known:") {
			continue
		}
		rest := strings.TrimSpace(strings.TrimPrefix(line, "known:"))
		var prop, key, what string
		if i := strings.Index(rest, " what="); i >= 0 {
			what = rest[i+6:]
			rest = rest[:i]
		}
		for _, f := range strings.Fields(rest) {
			if strings.HasPrefix(f, "property=") {
				prop = f[9:]
			} else if strings.HasPrefix(f, "key=") {
				key = f[4:]
			}
		}
		if prop == r.Property && key != "" {
			r.known[key] = what
		}
	}
}

// Violation records a property violation. key identifies the failing input
// class / call site in a stable way (it is what known_findings.txt lists);
// what is a one-line description; replay is any JSON-serialisable artefact
// sufficient to re-run the failing case.
func (r *Run) Violation(key, what string, replay any) {
	r.mu.Lock()
	defer r.mu.Unlock()
	if _, ok := r.known[key]; ok {
		r.knownHit[key]++
		return
	}
	r.violCount++
	if v, ok := r.viol[key]; ok {
		v.Count++
		return
	}
	r.viol[key] = &violation{Key: key, What: what, Replay: replay, Count: 1}
}

// Violations returns the number of (unlisted) violations so far.
// Hit reports whether a violation (or a listed known finding) with this key was recorded.
func (r *Run) Hit(key string) bool {
	r.mu.Lock()
	defer r.mu.Unlock()
	_, ok := r.viol[key]
	return ok || r.knownHit[key] > 0
}

func (r *Run) Violations() int {
	r.mu.Lock()
	defer r.mu.Unlock()
	return r.violCount
}

// Coverage is the coverage object of the evidence file.
type Coverage map[string]any

// Finish writes replay files and the evidence file, prints the verdict lines
// and exits with the contract's exit code.
func (r *Run) Finish(cov Coverage, assumptions []string) {
	r.mu.Lock()
	defer r.mu.Unlock()
	wall := time.Since(r.start).Seconds()
	keys := make([]string, 0, len(r.viol))
	for k := range r.viol {
		keys = append(keys, k)
	}
	sort.Strings(keys)
	rdir := filepath.Join(r.OutDir, "replays", r.Property)
	for i, k := range keys {
		v := r.viol[k]
		os.MkdirAll(rdir, 0o755)
		name := sanitize(k)
		if len(name) > 80 {
			name = name[:80]
		}
		v.Path = filepath.Join(rdir, fmt.Sprintf("%s-%d-%s.json", r.Tier, i, name))
		b, _ := json.MarshalIndent(map[string]any{"property": r.Property, "key": v.Key, "what": v.What, "count": v.Count, "replay": v.Replay}, "", " ")
		os.WriteFile(v.Path, b, 0o644)
	}
	kk := make([]string, 0, len(r.knownHit))
	for k := range r.knownHit {
		kk = append(kk, k)
	}
	sort.Strings(kk)
	for _, k := range kk {
		fmt.Printf("KNOWN-FINDING: property=%s key=%s hits=%d %s\n", r.Property, k, r.knownHit[k], r.known[k])
	}
	if cov == nil {
		cov = Coverage{}
	}
	if len(r.incomplete) > 0 {
		cov["exhaustive"] = false
		cov["incomplete_because"] = r.incomplete
	} else if _, ok := cov["exhaustive"]; !ok {
		cov["exhaustive"] = true
	}
	if len(r.notes) > 0 {
		cov["notes"] = r.notes
	}
	if len(kk) > 0 {
		cov["known_findings_hit"] = r.knownHit
	}
	if len(keys) > 0 {
		vs := []map[string]any{}
		for _, k := range keys {
			v := r.viol[k]
			vs = append(vs, map[string]any{"key": v.Key, "what": v.What, "count": v.Count, "replay": v.Path})
		}
		cov["violation_list"] = vs
	}
	evd := map[string]any{
		"property_id": r.Property,
		"tier":        r.Tier,
		"seed":        r.Seed,
		"level":       r.Level,
		"coverage":    cov,
		"assumptions": assumptions,
		"wall_s":      float64(int(wall*100)) / 100,
		"violations":  r.violCount,
	}
	os.MkdirAll(filepath.Join(r.OutDir, "evidence"), 0o755)
	b, _ := json.MarshalIndent(evd, "", " ")
	if err := os.WriteFile(filepath.Join(r.OutDir, "evidence", r.Property+".json"), append(b, '\n'), 0o644); err != nil {
		fmt.Fprintf(os.Stderr, "cannot write evidence: %v\n", err)
		os.Exit(2)
	}
	fmt.Printf("%s %s: wall=%.1fs violations=%d known=%d exhaustive=%v", r.Property, r.Tier, wall, r.violCount, len(kk), cov["exhaustive"])
	for _, k := range []string{"evaluations", "states", "transitions", "distinct_nontrivial"} {
		if v, ok := cov[k]; ok {
			fmt.Printf(" %s=%v", k, v)
		}
	}
	fmt.Println()
	for _, k := range keys {
		v := r.viol[k]
		fmt.Printf("  violation key=%s count=%d: %s\n", v.Key, v.Count, v.What)
		fmt.Printf("VIOLATION property=%s replay=%s\n", r.Property, v.Path)
	}
	if len(keys) > 0 {
		os.Exit(1)
	}
	os.Exit(0)
}

func sanitize(s string) string {
	b := []byte(s)
	for i, c := range b {
		if !(c >= 'a' && c <= 'z' || c >= 'A' && c <= 'Z' || c >= '0' && c <= '9' || c == '-' || c == '_' || c == '.') {
			b[i] = '_'
		}
	}
	return string(b)
}

// Samples keeps up to n sample cases, rotated by the seed so that different
// seeds show different cases; enumeration order itself never depends on it.
type Samples struct {
	mu   sync.Mutex
	n    int
	seen int
	seed int
	list []any
}

func NewSamples(n, seed int) *Samples { return &Samples{n: n, seed: seed} }

func (s *Samples) Add(f func() any) {
	s.mu.Lock()
	defer s.mu.Unlock()
	s.seen++
	if len(s.list) < s.n {
		s.list = append(s.list, f())
		return
	}
	// deterministic reservoir: replace when (seen*2654435761+seed) hits a slot
	h := uint64(s.seen)*2654435761 + uint64(s.seed)*40503
	if h%uint64(s.seen) < uint64(s.n) && h%7 == 0 {
		s.list[h%uint64(s.n)] = f()
	}
}

func (s *Samples) List() []any {
	s.mu.Lock()
	defer s.mu.Unlock()
	if len(s.list) == 0 {
		return []any{"(none)"}
	}
	return s.list
}

package txnh

import (
	"fmt"
	"math"
	"sort"
	"strings"

	"github.com/pingcap/kvproto/pkg/kvrpcpb"
	"github.com/tikv/client-go/v2/verifrt/sched"
)

// Monitor is the passive C04 automaton over the recorded request/response
// stream of one execution (DESIGN.md 5 C04 rules a-h). It judges only what it
// can derive with certainty from the stream; everything else is left alone.
func Monitor(h *History, log []RPCRecord, tsos []TSORecord, ticks ...TickRecord) []sched.Violation {
	var out []sched.Violation
	// primaries named on the wire by each transaction's lock / prewrite requests, in sending order: the
	// primary may be chosen anew after a first locking call that locked nothing
	type named struct {
		arr     int
		primary string
	}
	namedBy := map[uint64][]named{}
	for _, r := range log {
		if r.Req == nil {
			continue
		}
		switch q := r.Req.Req.(type) {
		case *kvrpcpb.PessimisticLockRequest:
			namedBy[q.StartVersion] = append(namedBy[q.StartVersion], named{r.ArrSeq, string(q.PrimaryLock)})
		case *kvrpcpb.PrewriteRequest:
			namedBy[q.StartVersion] = append(namedBy[q.StartVersion], named{r.ArrSeq, string(q.PrimaryLock)})
		}
	}
	// the primary a keep-alive iteration has to name: the one named by the newest lock / prewrite
	// request sent before the tick that started the iteration (a heart-beat already under way when
	// the primary is chosen anew may still name the old one)
	primaryAtIteration := func(start uint64, hbArr int) (string, bool) {
		tick := 0
		for _, t := range ticks {
			if t.Seq < hbArr && t.Seq > tick && strings.Contains(t.Label, "keepAlive") {
				tick = t.Seq
			}
		}
		if tick == 0 {
			return "", false
		}
		p, ok := "", false
		for _, n := range namedBy[start] {
			if n.arr != 0 && n.arr < tick {
				p, ok = n.primary, true
			}
		}
		return p, ok
	}
	add := func(key, format string, a ...any) {
		out = append(out, sched.Violation{Key: "c04:" + key, What: short(fmt.Sprintf(format, a...))})
	}
	recOf := map[uint64]*TxnRec{}
	for _, t := range h.Txns {
		if t.StartTS != 0 {
			recOf[t.StartTS] = t
		}
	}
	respOK := func(r RPCRecord) bool {
		if r.Err != nil || r.Resp == nil || r.Resp.Resp == nil || r.Dev == DevDropResp || r.Dev == DevDownResp || r.Dev == DevCrashDlv {
			return false
		}
		if re, _ := r.Resp.GetRegionError(); re != nil {
			return false
		}
		return true
	}
	physical := func(ts uint64) int64 { return int64(ts >> logicalBits) }
	// largest timestamp issued to a client before event seq
	maxIssued := func(client, seq int) uint64 {
		var m uint64
		for _, t := range tsos {
			if t.Client == client && t.Seq < seq && t.TS > m {
				m = t.TS
			}
		}
		return m
	}

	type txnState struct {
		owner          int
		primary        string
		primaries      map[string]bool
		prewritten     map[string]bool // keys with a successful prewrite response
		mutKeys        map[string]bool // keys appearing in any prewrite request
		muts           map[string]*kvrpcpb.Mutation
		actions        map[string]kvrpcpb.PrewriteRequest_PessimisticAction
		asyncReq       bool
		asyncOK        bool // every successful prewrite answered with min_commit_ts > 0
		onePCKeysets   map[string]bool
		onePCDone      bool
		minCommit      uint64
		primaryCommitSent bool
		primaryCommitOK   bool
		primaryCommitRefused bool
		commitTS       map[uint64]bool
		secondaries    map[string]bool // as listed by the async primary
		sawSecondaries bool
	}
	st := map[uint64]*txnState{}
	get := func(s uint64, owner int) *txnState {
		x, ok := st[s]
		if !ok {
			x = &txnState{owner: owner, primaries: map[string]bool{}, prewritten: map[string]bool{}, mutKeys: map[string]bool{}, muts: map[string]*kvrpcpb.Mutation{},
				actions: map[string]kvrpcpb.PrewriteRequest_PessimisticAction{}, asyncOK: true, onePCKeysets: map[string]bool{}, commitTS: map[uint64]bool{}, secondaries: map[string]bool{}}
			st[s] = x
		}
		return x
	}
	// per (client, txn) knowledge a resolver has gathered
	type know struct {
		commitTS   map[uint64]bool // commit versions reported by CheckTxnStatus / CheckSecondaryLocks
		rolledBack bool            // a status answer said rolled back (or secondaries check implies rollback)
		asyncMin   uint64          // max min_commit_ts over secondary locks seen (async derivation)
		asyncSeen  bool
		ttl0       bool   // a lock of the txn with ttl 0 was observed
		lockTTL    uint64 // largest ttl observed in lock infos / status answers
		gc         bool   // the client checked this transaction on the GC path (every lock at or below the safe point counts as expired)
	}
	kn := map[string]*know{}
	kget := func(c int, s uint64) *know {
		k := fmt.Sprintf("%d/%d", c, s)
		x, ok := kn[k]
		if !ok {
			x = &know{commitTS: map[uint64]bool{}}
			kn[k] = x
		}
		return x
	}
	noteLock := func(c int, li *kvrpcpb.LockInfo) {
		if li == nil {
			return
		}
		k := kget(c, li.LockVersion)
		if li.LockTtl == 0 {
			k.ttl0 = true
		}
		if li.LockTtl > k.lockTTL {
			k.lockTTL = li.LockTtl
		}
	}
	noteKeyErr := func(c int, e *kvrpcpb.KeyError) {
		if e != nil && e.Locked != nil {
			noteLock(c, e.Locked)
		}
	}
	lastHB := map[uint64]uint64{}
	hbAfterEnd := map[uint64]int{}

	for _, r := range log {
		if r.Req == nil {
			continue
		}
		switch q := r.Req.Req.(type) {
		case *kvrpcpb.PrewriteRequest:
			x := get(q.StartVersion, r.Client)
			x.primaries[string(q.PrimaryLock)] = true
			x.primary = string(q.PrimaryLock)
			var ks []string
			for i, m := range q.Mutations {
				k := string(m.Key)
				ks = append(ks, k)
				x.mutKeys[k] = true
				x.muts[k] = m
				if i < len(q.PessimisticActions) {
					x.actions[k] = q.PessimisticActions[i]
				}
			}
			if q.UseAsyncCommit {
				x.asyncReq = true
				if string(q.PrimaryLock) != "" {
					for _, m := range q.Mutations {
						if string(m.Key) == string(q.PrimaryLock) {
							x.sawSecondaries = true
							x.secondaries = map[string]bool{}
							for _, s := range q.Secondaries {
								x.secondaries[string(s)] = true
							}
						}
					}
				}
			}
			if q.TryOnePc {
				sort.Strings(ks)
				x.onePCKeysets[strings.Join(ks, ",")] = true
			}
			if respOK(r) {
				resp := r.Resp.Resp.(*kvrpcpb.PrewriteResponse)
				if len(resp.Errors) == 0 {
					for _, k := range ks {
						x.prewritten[k] = true
					}
					if resp.MinCommitTs > x.minCommit {
						x.minCommit = resp.MinCommitTs
					}
					if resp.MinCommitTs == 0 {
						x.asyncOK = false
					}
					if resp.OnePcCommitTs > 0 {
						x.onePCDone = true
						x.commitTS[resp.OnePcCommitTs] = true
					}
				}
				for _, e := range resp.Errors {
					noteKeyErr(r.Client, e)
				}
			}
		case *kvrpcpb.CommitRequest:
			x := get(q.StartVersion, r.Client)
			hasPrimary := false
			for _, k := range q.Keys {
				if string(k) == x.primary {
					hasPrimary = true
				}
			}
			// (a) all mutations prewritten successfully before any commit
			for k := range x.mutKeys {
				if m := x.muts[k]; m != nil && m.Op == kvrpcpb.Op_CheckNotExists {
					continue
				}
				if !x.prewritten[k] {
					add("commit-before-all-prewritten", "transaction start=%d: Commit%v sent although mutation %q has no successful prewrite response yet", q.StartVersion, strs(q.Keys), k)
				}
			}
			if t := recOf[q.StartVersion]; t != nil {
				for k, w := range t.Writes {
					if w.Del && w.Insert {
						continue
					}
					if !x.prewritten[k] {
						add("commit-before-all-prewritten", "transaction start=%d: Commit%v sent although buffered key %q has no successful prewrite response", q.StartVersion, strs(q.Keys), k)
					}
				}
			}
			// (b) secondaries only after the primary's commit succeeded, unless async commit
			if !hasPrimary && !(x.asyncReq && x.asyncOK) && !x.primaryCommitOK {
				add("secondary-commit-before-primary", "transaction start=%d: Commit%v of secondaries sent before the primary %q was successfully committed", q.StartVersion, strs(q.Keys), x.primary)
			}
			// (g) commit ts rules
			if q.CommitVersion <= q.StartVersion {
				add("commit-ts-not-after-start", "transaction start=%d commits at %d", q.StartVersion, q.CommitVersion)
			}
			if q.CommitVersion < x.minCommit {
				add("commit-ts-below-min-commit-ts", "transaction start=%d commits at %d below min-commit-ts %d returned by a prewrite", q.StartVersion, q.CommitVersion, x.minCommit)
			}
			if t := recOf[q.StartVersion]; t != nil && !t.Mode.Causal && t.CommitCalled && q.CommitVersion <= t.MaxIssuedAtCommitCall {
				add("commit-ts-not-above-issued", "transaction start=%d commits at %d, not above %d which the oracle had issued before Commit was called", q.StartVersion, q.CommitVersion, t.MaxIssuedAtCommitCall)
			}
			x.commitTS[q.CommitVersion] = true
			if hasPrimary {
				x.primaryCommitSent = true
				if respOK(r) {
					resp := r.Resp.Resp.(*kvrpcpb.CommitResponse)
					if resp.Error == nil {
						x.primaryCommitOK = true
						x.primaryCommitRefused = false
					} else {
						// a key error is a definite answer: the primary was not committed by this request
						x.primaryCommitRefused = true
					}
				} else {
					x.primaryCommitRefused = false
				}
			}
		case *kvrpcpb.BatchRollbackRequest:
			x := get(q.StartVersion, r.Client)
			if r.Client == x.owner && (x.primaryCommitOK || (x.primaryCommitSent && !x.primaryCommitRefused)) {
				add("rollback-after-primary-commit", "transaction start=%d: BatchRollback%v sent by the owner after the primary commit may have taken effect", q.StartVersion, strs(q.Keys))
			}
			if r.Client == x.owner && (x.onePCDone) {
				add("rollback-after-1pc", "transaction start=%d: BatchRollback%v sent after a successful one-phase commit", q.StartVersion, strs(q.Keys))
			}
		case *kvrpcpb.PessimisticRollbackRequest:
			x := get(q.StartVersion, r.Client)
			if r.Client == x.owner && x.primaryCommitOK {
				for _, k := range q.Keys {
					if x.prewritten[string(k)] {
						add("pessimistic-rollback-after-commit", "transaction start=%d: PessimisticRollback of prewritten key %q after the primary commit succeeded", q.StartVersion, k)
					}
				}
			}
		case *kvrpcpb.CleanupRequest:
			x := get(q.StartVersion, r.Client)
			if r.Client == x.owner && (x.primaryCommitOK || (x.primaryCommitSent && !x.primaryCommitRefused)) {
				add("rollback-after-primary-commit", "transaction start=%d: Cleanup sent by the owner after the primary commit may have taken effect", q.StartVersion)
			}
		case *kvrpcpb.CheckTxnStatusRequest:
			k := kget(r.Client, q.LockTs)
			// (e) forcing expiry / rollback only for ttl-0 locks, the GC path, or locks that outlived their TTL on the resolver's clock
			forced := q.CurrentTs == math.MaxUint64
			gcPath := q.CallerStartTs == 0 && q.CurrentTs == math.MaxUint64
			mi := maxIssued(r.Client, r.Seq)
			if gcPath {
				k.gc = true
			}
			expiredOnOwnClock := k.lockTTL > 0 && physical(mi) >= physical(q.LockTs)+int64(k.lockTTL)
			if forced && !gcPath && !k.ttl0 && !expiredOnOwnClock {
				add("forced-expiry-of-live-lock", "client %d asks to expire transaction %d unconditionally (current_ts=max) although its lock (ttl %d ms) has not outlived its TTL on the client's clock (largest issued ts physical %d, lock physical %d)", r.Client, q.LockTs, k.lockTTL, physical(mi), physical(q.LockTs))
			}
			if !forced && q.CurrentTs > mi && mi != 0 {
				add("status-check-clock-ahead", "client %d sends CheckTxnStatus with current_ts %d beyond the largest timestamp it was issued (%d)", r.Client, q.CurrentTs, mi)
			}
			if q.RollbackIfNotExist && !gcPath && !k.ttl0 && !expiredOnOwnClock {
				add("rollback-if-not-exist-before-expiry", "client %d sends rollback_if_not_exist for transaction %d before its lock (ttl %d ms) expired on the client's clock", r.Client, q.LockTs, k.lockTTL)
			}
			if respOK(r) {
				resp := r.Resp.Resp.(*kvrpcpb.CheckTxnStatusResponse)
				if resp.Error == nil {
					if resp.CommitVersion > 0 {
						k.commitTS[resp.CommitVersion] = true
					} else if resp.LockTtl == 0 && resp.Action != kvrpcpb.Action_MinCommitTSPushed && resp.Action != kvrpcpb.Action_LockNotExistDoNothing {
						k.rolledBack = true
					}
					if resp.LockTtl > k.lockTTL {
						k.lockTTL = resp.LockTtl // the primary's ttl as the store reports it (heart-beats raise it)
					}
					if resp.LockInfo != nil {
						noteLock(r.Client, resp.LockInfo)
						if resp.LockInfo.UseAsyncCommit {
							k.asyncSeen = true
							if resp.LockInfo.MinCommitTs > k.asyncMin {
								k.asyncMin = resp.LockInfo.MinCommitTs
							}
						}
					}
				}
			}
		case *kvrpcpb.CheckSecondaryLocksRequest:
			k := kget(r.Client, q.StartVersion)
			// (e) the async-commit recovery (which rolls back missing secondaries) may start only when the
			// transaction's primary lock has outlived its TTL on the resolver's clock (or is gone)
			if x, ok := st[q.StartVersion]; !(ok && x.owner == r.Client) && !k.gc && !k.ttl0 && !k.rolledBack && len(k.commitTS) == 0 && k.lockTTL > 0 {
				if mi := maxIssued(r.Client, r.Seq); mi != 0 && physical(mi) < physical(q.StartVersion)+int64(k.lockTTL) {
					add("async-recovery-of-live-transaction", "client %d starts the async-commit recovery (CheckSecondaryLocks) of transaction %d although the largest lock ttl it was told (%d ms, the primary's) has not run out on its clock (largest issued ts physical %d, lock physical %d)", r.Client, q.StartVersion, k.lockTTL, physical(mi), physical(q.StartVersion))
				}
			}
			if respOK(r) {
				resp := r.Resp.Resp.(*kvrpcpb.CheckSecondaryLocksResponse)
				if resp.Error == nil {
					k.asyncSeen = true
					if resp.CommitTs > 0 {
						k.commitTS[resp.CommitTs] = true
					}
					if len(resp.Locks) < len(q.Keys) && resp.CommitTs == 0 {
						k.rolledBack = true // a secondary is missing and nothing is committed
					}
					for _, l := range resp.Locks {
						if l.MinCommitTs > k.asyncMin {
							k.asyncMin = l.MinCommitTs
						}
					}
				}
			}
		case *kvrpcpb.ResolveLockRequest:
			// (d) a resolver applies only the outcome the store reported for that transaction
			check := func(start, commit uint64) {
				k := kget(r.Client, start)
				if x, ok := st[start]; ok && x.owner == r.Client {
					return // the owner resolving its own (pipelined) locks is judged elsewhere
				}
				if commit > 0 {
					if !k.commitTS[commit] && !(k.asyncSeen && !k.rolledBack && commit == k.asyncMin) {
						add("resolve-with-underived-commit-ts", "client %d resolves transaction %d as committed at %d, but no status answer it received reported that commit ts (reported %v, async-derived %d)", r.Client, start, commit, keysU(k.commitTS), k.asyncMin)
					}
				} else if !k.rolledBack {
					add("resolve-rollback-without-status", "client %d rolls back locks of transaction %d although no status answer it received said the transaction is rolled back", r.Client, start)
				}
			}
			if len(q.TxnInfos) > 0 {
				for _, ti := range q.TxnInfos {
					check(ti.Txn, ti.Status)
				}
			} else {
				check(q.StartVersion, q.CommitVersion)
			}
		case *kvrpcpb.TxnHeartBeatRequest:
			// (f) heart-beats name the primary, never lower the TTL, exceed the age, stop at the end
			if want, ok := primaryAtIteration(q.StartVersion, r.ArrSeq); ok {
				if string(q.PrimaryLock) != want {
					add("heartbeat-wrong-primary", "transaction start=%d: heart-beat names %q, but the primary named by the transaction's newest lock/prewrite request before this keep-alive iteration began is %q", q.StartVersion, q.PrimaryLock, want)
				}
			} else if x, ok := st[q.StartVersion]; ok && x.primary != "" && string(q.PrimaryLock) != x.primary {
				add("heartbeat-wrong-primary", "transaction start=%d: heart-beat names %q, primary is %q", q.StartVersion, q.PrimaryLock, x.primary)
			}
			if q.AdviseLockTtl < lastHB[q.StartVersion] {
				add("heartbeat-ttl-decreased", "transaction start=%d: heart-beat advises ttl %d after %d", q.StartVersion, q.AdviseLockTtl, lastHB[q.StartVersion])
			}
			lastHB[q.StartVersion] = q.AdviseLockTtl
			// age on the owner's own clock: the newest timestamp it had been issued when it built the request
			if mi := maxIssued(r.Client, r.ArrSeq); mi != 0 {
				age := physical(mi) - physical(q.StartVersion)
				if int64(q.AdviseLockTtl) <= age {
					add("heartbeat-ttl-not-above-age", "transaction start=%d: heart-beat advises ttl %d ms at age %d ms (owner's clock)", q.StartVersion, q.AdviseLockTtl, age)
				}
			}
			if t := recOf[q.StartVersion]; t != nil && t.CommitRetSeq != 0 && r.ArrSeq > t.CommitRetSeq && (t.Outcome == "rolledback" || t.Outcome == "failed" || (t.Outcome == "committed" && !(t.Mode.Async || t.Mode.OnePC))) {
				hbAfterEnd[q.StartVersion]++
				if hbAfterEnd[q.StartVersion] == 1 {
					// the keep-alive iteration that was already under way when the transaction ended
					add("heartbeat-after-end:iteration-in-flight", "transaction start=%d: one heart-beat was sent after the transaction ended (%s): the keep-alive iteration was waiting for its timestamp when the owner finished", q.StartVersion, t.Outcome)
				} else {
					add("heartbeat-after-end:repeated", "transaction start=%d: %d heart-beats sent after the transaction ended (%s)", q.StartVersion, hbAfterEnd[q.StartVersion], t.Outcome)
				}
			}
		case *kvrpcpb.PessimisticLockRequest:
			x := get(q.StartVersion, r.Client)
			if x.primary == "" {
				x.primary = string(q.PrimaryLock)
			}
			if respOK(r) {
				for _, e := range r.Resp.Resp.(*kvrpcpb.PessimisticLockResponse).Errors {
					noteKeyErr(r.Client, e)
				}
			}
		case *kvrpcpb.GetRequest:
			if respOK(r) {
				noteKeyErr(r.Client, r.Resp.Resp.(*kvrpcpb.GetResponse).Error)
			}
		case *kvrpcpb.BatchGetRequest:
			if respOK(r) {
				resp := r.Resp.Resp.(*kvrpcpb.BatchGetResponse)
				noteKeyErr(r.Client, resp.Error)
				for _, p := range resp.Pairs {
					noteKeyErr(r.Client, p.Error)
				}
			}
		case *kvrpcpb.ScanRequest:
			if respOK(r) {
				resp := r.Resp.Resp.(*kvrpcpb.ScanResponse)
				noteKeyErr(r.Client, resp.Error)
				for _, p := range resp.Pairs {
					noteKeyErr(r.Client, p.Error)
				}
			}
		case *kvrpcpb.ScanLockRequest:
			if respOK(r) {
				for _, l := range r.Resp.Resp.(*kvrpcpb.ScanLockResponse).Locks {
					noteLock(r.Client, l)
				}
			}
		}
	}

	// (h) shape of the prewrites of each driver transaction
	for s, x := range st {
		t := recOf[s]
		if t == nil || len(x.mutKeys) == 0 {
			continue
		}
		if t.Outcome == "open" || t.Outcome == "unstarted" {
			continue // the owner never got an answer (crashed / cut off): its prewrites may be incomplete
		}
		if len(x.primaries) > 1 {
			add("two-primaries", "transaction %s (start=%d): prewrites name different primaries %v", t.Prog, s, keysS(x.primaries))
		}
		if m := x.muts[x.primary]; m == nil || m.Op == kvrpcpb.Op_CheckNotExists {
			add("primary-not-a-locked-mutation", "transaction %s (start=%d): primary %q is not one of the locked mutations", t.Prog, s, x.primary)
		}
		if len(x.onePCKeysets) > 1 {
			add("1pc-with-several-prewrites", "transaction %s (start=%d): one-phase commit attempted with %d different prewrite requests", t.Prog, s, len(x.onePCKeysets))
		}
		if x.sawSecondaries && x.asyncReq {
			want := map[string]bool{}
			for k, m := range x.muts {
				if k != x.primary && m.Op != kvrpcpb.Op_CheckNotExists {
					want[k] = true
				}
			}
			if strings.Join(keysS(want), ",") != strings.Join(keysS(x.secondaries), ",") {
				add("async-secondaries-mismatch", "transaction %s (start=%d): async-commit primary lists secondaries %v, locked non-primary mutations are %v", t.Prog, s, keysS(x.secondaries), keysS(want))
			}
		}
		if !t.CommitCalled {
			continue
		}
		// union of prewritten mutations == buffered writes (+ locked keys), each with the implied op / value
		locked := map[string]bool{}
		for _, l := range t.Locks {
			locked[l.Key] = true
		}
		for _, k := range t.OptLocked {
			locked[k] = true
		}
		for k, w := range t.Writes {
			m := x.muts[k]
			var wantOp kvrpcpb.Op
			switch {
			case w.Del && w.Insert && !t.Mode.Pessimistic:
				wantOp = kvrpcpb.Op_CheckNotExists
			case w.Del && w.Insert && t.Mode.Pessimistic:
				if m != nil && m.Op != kvrpcpb.Op_Lock && m.Op != kvrpcpb.Op_CheckNotExists {
					add("wrong-op:insert-then-delete:pessimistic", "transaction %s: key %q (insert then delete, pessimistic) prewritten as %s", t.Prog, k, m.Op)
				}
				continue
			case w.Del:
				wantOp = kvrpcpb.Op_Del
			case w.Insert:
				wantOp = kvrpcpb.Op_Insert
			default:
				wantOp = kvrpcpb.Op_Put
			}
			if m == nil {
				// never sent: only acceptable if Commit failed before reaching this key's batch
				if t.Outcome == "committed" {
					add("buffered-write-not-prewritten", "transaction %s (start=%d) committed but buffered key %q was never prewritten", t.Prog, s, k)
				}
				continue
			}
			if m.Op != wantOp {
				add("wrong-op:"+wantOp.String(), "transaction %s: key %q should be prewritten as %s, was %s", t.Prog, k, wantOp, m.Op)
			}
			if (wantOp == kvrpcpb.Op_Put || wantOp == kvrpcpb.Op_Insert) && string(m.Value) != w.Val {
				add("wrong-value", "transaction %s: key %q prewritten with value %q, buffer has %q", t.Prog, k, m.Value, w.Val)
			}
			if t.Mode.Pessimistic {
				act, has := x.actions[k]
				if has && locked[k] && act != kvrpcpb.PrewriteRequest_DO_PESSIMISTIC_CHECK {
					add("missing-pessimistic-check", "transaction %s: key %q was pessimistically locked but its prewrite carries %s", t.Prog, k, act)
				}
				if has && !locked[k] && act == kvrpcpb.PrewriteRequest_DO_PESSIMISTIC_CHECK {
					add("pessimistic-check-on-unlocked-key", "transaction %s: key %q was never locked but its prewrite demands the pessimistic lock", t.Prog, k)
				}
			}
		}
		for k, m := range x.muts {
			if _, ok := t.Writes[k]; ok {
				continue
			}
			if locked[k] {
				if m.Op != kvrpcpb.Op_Lock {
					add("wrong-op:lock-only", "transaction %s: lock-only key %q prewritten as %s", t.Prog, k, m.Op)
				}
				continue
			}
			add("prewrite-of-unbuffered-key", "transaction %s: key %q prewritten (%s) but it is neither buffered nor locked", t.Prog, k, m.Op)
		}
	}
	return out
}

func strs(ks [][]byte) []string {
	out := make([]string, len(ks))
	for i, k := range ks {
		out[i] = string(k)
	}
	return out
}

func keysS(m map[string]bool) []string {
	out := make([]string, 0, len(m))
	for k := range m {
		out = append(out, k)
	}
	sort.Strings(out)
	return out
}

func keysU(m map[uint64]bool) []uint64 {
	out := make([]uint64, 0, len(m))
	for k := range m {
		out = append(out, k)
	}
	sort.Slice(out, func(i, j int) bool { return out[i] < out[j] })
	return out
}

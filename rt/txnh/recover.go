package txnh

import (
	"context"
	"time"

	tikverr "github.com/tikv/client-go/v2/error"
	"github.com/tikv/client-go/v2/tikv"
	"github.com/tikv/client-go/v2/verifrt/sched"
)

// SnapshotRead reads keys at ts through a fresh client (resolving whatever locks it is
// entitled to resolve). Must be called in the synchronous phase. Returns key->value of found keys
// and the keys whose read failed.
func (w *World) SnapshotRead(c *Client, ts uint64, keys []string) (map[string]string, map[string]string) {
	got, failed := map[string]string{}, map[string]string{}
	snap := c.Store.GetSnapshot(ts)
	for _, k := range keys {
		v, err := snap.Get(context.Background(), []byte(k))
		switch {
		case err == nil:
			got[k] = string(v.Value)
		case tikverr.IsErrNotFound(err):
		default:
			failed[k] = errClass(err)
		}
	}
	return got, failed
}

// GCResolve runs GC's lock resolution for every lock with start ts <= safePoint over the whole key space.
func (w *World) GCResolve(c *Client, safePoint uint64, scanLimit uint32) error {
	_, err := tikv.ResolveLocksForRange(context.Background(), tikv.NewRegionLockResolver("verif", c.Store), safePoint, nil, nil, tikv.NewGcResolveLockMaxBackoffer, scanLimit)
	return err
}

// Recovery is the result of the forced resolution.
type Recovery struct {
	Left   []LockRec         // locks still present afterwards
	ReadTS uint64            // snapshot of the recovery reader (0 if it did not run)
	Got    map[string]string // what it saw
	Failed map[string]string // keys whose read failed
	WriterOutcome string
}

// ForceResolve drives every leftover lock to its outcome: the clock is moved past every TTL,
// then recovery actors run one after the other on a fresh client, in the order given by variant:
//   "reader-gc": snapshot reads of all keys (expired locks are resolved through their primary), then a GC pass
//   "gc-reader": GC lock resolution at the newest timestamp first, then the reads
//   "writer-reader": an optimistic transaction writing every key (prewrite meets and resolves the locks), then reads, then GC
// The reads always happen, so their result can be compared with the final state.
func ForceResolve(w *World, keys []string, variant string) *Recovery {
	rc := &Recovery{}
	sched.Sync(func() {
		if len(w.B.Locks()) == 0 && variant != "writer-reader" {
			c := w.AddClient()
			rc.ReadTS, _ = c.Store.CurrentTimestamp("global")
			rc.Got, rc.Failed = w.SnapshotRead(c, rc.ReadTS, keys)
			return
		}
		sched.Advance(2 * time.Hour)
		c := w.AddClient()
		read := func() {
			ts, err := c.Store.CurrentTimestamp("global")
			if err != nil {
				ts = w.TSO.NextTS()
			}
			rc.ReadTS = ts
			rc.Got, rc.Failed = w.SnapshotRead(c, ts, keys)
		}
		gc := func() { _ = w.GCResolve(c, w.TSO.NextTS(), 16) }
		switch variant {
		case "gc-reader":
			c.Store.CurrentTimestamp("global")
			gc()
			read()
		case "writer-reader":
			txn, err := c.Store.Begin()
			if err == nil {
				for _, k := range keys {
					txn.Set([]byte(k), []byte("recovery-writer"))
				}
				err = txn.Commit(context.Background())
				rc.WriterOutcome = errClass(err)
				if err == nil {
					rc.WriterOutcome = "committed"
				}
			}
			read()
			gc()
		default:
			read()
			gc()
		}
		rc.Left = w.B.Locks()
	})
	return rc
}

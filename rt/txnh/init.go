package txnh

import (
	"os"

	"github.com/pingcap/failpoint"
	"github.com/pingcap/log"
	"github.com/tikv/client-go/v2/util"
	"go.uber.org/zap"
)

// Init silences logging (unless VERIF_LOG is set) and switches off background
// pollers that would only add idle timers to every execution.
func Init() {
	if os.Getenv("VERIF_LOG") == "" {
		log.ReplaceGlobals(zap.NewNop(), nil)
	}
	util.EnableFailpoints()
	// the built-in txn safe point poller re-arms a 10 s timer forever; the checks drive
	// UpdateTxnSafePointCache explicitly where the property needs it (C14)
	if err := failpoint.Enable("tikvclient/noBuiltInTxnSafePointUpdater", "return"); err != nil {
		panic(err)
	}
	// store liveness probes would dial gRPC health checks: the mock stores are always reachable
	if err := failpoint.Enable("tikvclient/injectLiveness", `return("reachable")`); err != nil {
		panic(err)
	}
}

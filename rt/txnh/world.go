// Package txnh is the shared harness library of the transactional checks
// (C01-C06, C14, C16): a world of several logical clients (each with its own
// KVStore) over one shared store backend and one scripted timestamp oracle,
// with seam wrappers that park every store RPC and every timestamp request at
// the controlled scheduler.
package txnh

import (
	"context"
	"errors"
	"fmt"
	"os"
	"sort"
	"strings"
	"sync"
	"sync/atomic"
	"time"

	"github.com/pingcap/kvproto/pkg/errorpb"
	"github.com/pingcap/kvproto/pkg/kvrpcpb"
	"github.com/tikv/client-go/v2/tikv"
	"github.com/tikv/client-go/v2/tikvrpc"
	"github.com/tikv/client-go/v2/util/async"
	"github.com/tikv/client-go/v2/verifrt/sched"
	"github.com/tikv/client-go/v2/verifrt/stime"
	pd "github.com/tikv/pd/client"
	"github.com/tikv/pd/client/clients/tso"
	"github.com/tikv/pd/client/pkg/caller"
)

// Version is one committed write record of a key (ground truth read from the store).
type Version struct {
	StartTS  uint64
	CommitTS uint64
	Type     string // "put", "del", "lock", "rollback"
	Value    string
}

// LockRec is a lock found in the store.
type LockRec struct {
	Key     string
	Primary string
	StartTS uint64
	Type    string
	TTL     uint64
}

// Backend is the shared store under the clients.
type Backend interface {
	Name() string
	RPC() tikv.Client // raw RPC entry of the store (below the seam)
	PD() pd.Client    // raw PD client (region queries)
	// SplitAt splits the region containing key at key (no-op if key is a region start).
	SplitAt(key []byte)
	// TransferLeader moves the leader of the region containing key to another peer if there is one.
	TransferLeader(key []byte)
	Versions(key []byte) []Version // newest first
	Locks() []LockRec
	Close()
}

// Deviation kinds understood by the store seam (Decision.Kind).
const (
	DevDropReq   = 1 // request lost: RPC error, store untouched
	DevDropResp  = 2 // store applies the request, the answer is lost (RPC error)
	DevRegionErr = 3 // Arg: *errorpb.Error returned instead of delivering
	DevCrash     = 4 // the client dies here; request not delivered; never returns
	DevCrashDlv  = 5 // request delivered, then the client dies
	DevHook      = 6 // Arg: func() run right before a normal delivery (e.g. split)
	DevDownReq   = 7 // store unreachable from now on for this client and command type: this and all later such requests fail undelivered
	DevDownResp  = 8 // this request is applied but its answer is lost, and the store is unreachable afterwards (as DevDownReq)
	DevAnswer    = 9 // Arg: func(*tikvrpc.Request) *tikvrpc.Response - the store answers this instead of handling the request (e.g. a non-retriable key error)
)

// LostMessage reports whether the deviation loses a request or a response.
func LostMessage(dev int) bool {
	return dev == DevDropReq || dev == DevDropResp || dev == DevDownReq || dev == DevDownResp
}

// RPCRecord is one request/response pair seen at the store seam.
type RPCRecord struct {
	ArrSeq int // when the request was issued by the client (parked at the seam)
	Seq    int
	Client int
	Cmd    tikvrpc.CmdType
	Req    *tikvrpc.Request
	Resp   *tikvrpc.Response
	Err    error
	Dev    int
	Label  string
}

// World is one execution's universe.
type World struct {
	B       Backend
	TSO     *Oracle
	Clients []*Client

	Gen     int64        // sched.Gen() of the execution this world belongs to
	Seq     atomic.Int64 // one event sequence for RPC records, TSO records and API-level history
	TSOLog  []TSORecord
	TickLog []TickRecord

	// BeforeRPC, when set, runs right before a request is handed to the store (used by oracles that
	// drive reads in the synchronous phase and inject topology changes at chosen RPC indices)
	BeforeRPC func(c *Client, req *tikvrpc.Request)
	// AfterRPC, when set, may replace the store's answer (an equivalent wire form of the same answer,
	// e.g. a lock reported at response level instead of pair level).
	AfterRPC func(c *Client, req *tikvrpc.Request, resp *tikvrpc.Response) *tikvrpc.Response

	mu      sync.Mutex
	RPCLog  []RPCRecord
	crashed map[int]bool
	down    map[string]bool // client/cmd -> unreachable
}

// Client is one logical client process.
type Client struct {
	ID    int
	W     *World
	Store *tikv.KVStore
	dead  chan struct{}
	open  []interface{ Rollback() error } // transactions begun by the driver (rolled back at teardown if still open)
}

// Oracle is the scripted timestamp oracle shared by all clients (and by the
// store backend when it needs one): physical = T0 + virtual ms, logical is a
// global counter, so timestamps are strictly increasing and deterministic.
type Oracle struct {
	// Source, when set, issues the (physical, logical) pair for the given virtual physical
	// time (a backend with its own timestamp counter, i.e. unistore, plugs it in so that
	// client and store share one clock).
	Source  func(physicalMS int64) (int64, int64)
	mu      sync.Mutex
	logical int64
	lastP   int64
	Issued  []uint64
}

const logicalBits = 18

// Next issues the next timestamp.
func (o *Oracle) Next() (int64, int64) {
	o.mu.Lock()
	defer o.mu.Unlock()
	p := sched.T0.UnixMilli() + sched.NowNS()/int64(time.Millisecond)
	if p < o.lastP {
		p = o.lastP
	}
	if p > o.lastP {
		o.lastP = p
		// keep the logical counter running: uniqueness matters, not compactness
	}
	o.logical++
	l := o.logical
	if o.Source != nil {
		p, l = o.Source(p)
	}
	o.Issued = append(o.Issued, uint64(p)<<logicalBits|uint64(l))
	return p, l
}

// NextTS issues and composes.
func (o *Oracle) NextTS() uint64 {
	p, l := o.Next()
	return uint64(p)<<logicalBits | uint64(l)
}

// Max returns the largest issued timestamp.
func (o *Oracle) Max() uint64 {
	o.mu.Lock()
	defer o.mu.Unlock()
	if len(o.Issued) == 0 {
		return 0
	}
	return o.Issued[len(o.Issued)-1]
}

// CurrentOracle is the oracle of the world being executed (a store backend with its own
// timestamp needs, i.e. unistore, draws from it so that client and store share one clock).
var CurrentOracle *Oracle

// NewWorld creates n clients over the backend.
func NewWorld(b Backend, n int, opts ...tikv.Option) *World {
	w := &World{B: b, TSO: &Oracle{}, crashed: map[int]bool{}, down: map[string]bool{}, Gen: sched.Gen()}
	CurrentOracle = w.TSO
	sched.OnTick = func(label string) {
		if sched.Gen() != w.Gen {
			return
		}
		w.mu.Lock()
		w.TickLog = append(w.TickLog, TickRecord{Seq: int(w.Seq.Add(1)), Label: label})
		w.mu.Unlock()
	}
	if src, ok := b.(interface {
		TSSource() func(int64) (int64, int64)
	}); ok {
		w.TSO.Source = src.TSSource()
	}
	for i := 0; i < n; i++ {
		w.AddClient(opts...)
	}
	return w
}

// AddClient adds one more logical client (its own KVStore, region cache, resolver, oracle).
func (w *World) AddClient(opts ...tikv.Option) *Client {
	return w.addClient(len(w.Clients), opts...)
}

// AddClientActor adds a client whose seam events carry the given actor id.
func (w *World) AddClientActor(actor int, opts ...tikv.Option) *Client {
	return w.addClient(actor, opts...)
}

func (w *World) addClient(id int, opts ...tikv.Option) *Client {
	c := &Client{ID: id, W: w, dead: make(chan struct{})}
	rpc := &seamRPC{c: c, inner: w.B.RPC()}
	pdc := &seamPD{Client: w.B.PD(), c: c}
	st, err := tikv.NewTestTiKVStore(rpc, pdc, nil, nil, 0, opts...)
	if err != nil {
		panic(fmt.Sprintf("NewTestTiKVStore: %v", err))
	}
	c.Store = st
	w.Clients = append(w.Clients, c)
	return c
}

// Close tears everything down (after sched.Close).
func (w *World) Close() {
	for _, c := range w.Clients {
		// end transactions that never finished (crashed / aborted drivers): their keep-alive
		// goroutines would otherwise live on and pin the whole world in memory
		for _, t := range c.open {
			func() {
				defer func() { recover() }()
				t.Rollback()
			}()
		}
		c.open = nil
		c.Store.Close()
	}
	w.B.Close()
}

// Crash marks a client dead: none of its parked or future events is delivered.
func (w *World) Crash(id int) {
	w.mu.Lock()
	w.crashed[id] = true
	w.mu.Unlock()
	sched.KillActor(id)
}

// Crashed reports whether the client was crashed.
func (w *World) Crashed(id int) bool {
	w.mu.Lock()
	defer w.mu.Unlock()
	return w.crashed[id]
}

func (w *World) record(r RPCRecord) {
	w.mu.Lock()
	r.Seq = int(w.Seq.Add(1))
	w.RPCLog = append(w.RPCLog, r)
	w.mu.Unlock()
}

// TickRecord is one firing of a virtual ticker (e.g. a transaction's keep-alive ticker), placed in
// the same sequence as the RPC and TSO records.
type TickRecord struct {
	Seq   int
	Label string
}

// Ticks returns a copy of the ticker log.
func (w *World) Ticks() []TickRecord {
	w.mu.Lock()
	defer w.mu.Unlock()
	return append([]TickRecord(nil), w.TickLog...)
}

// TSORecord is one timestamp handed to a client.
type TSORecord struct {
	Seq    int
	Client int
	TS     uint64
}

// TSOs returns a copy of the timestamp log.
func (w *World) TSOs() []TSORecord {
	w.mu.Lock()
	defer w.mu.Unlock()
	return append([]TSORecord{}, w.TSOLog...)
}

// Log returns a copy of the RPC log.
func (w *World) Log() []RPCRecord {
	w.mu.Lock()
	defer w.mu.Unlock()
	return append([]RPCRecord{}, w.RPCLog...)
}

// ---- store seam ----

type seamRPC struct {
	c     *Client
	inner tikv.Client
}

var debugSeam = os.Getenv("VERIF_DEBUG") != ""

var errInjected = errors.New("verif: injected rpc failure")
var errClosed = errors.New("verif: execution closed")

// block parks the goroutine forever-ish (crashed client): it returns only at teardown.
func (s *seamRPC) blockDead() { sched.ParkForever() }

func (s *seamRPC) SendRequest(ctx context.Context, addr string, req *tikvrpc.Request, timeout time.Duration) (*tikvrpc.Response, error) {
	if sched.Gen() != s.c.W.Gen {
		return nil, errClosed // a goroutine of an earlier execution
	}
	label := ReqLabel(req)
	downKey := fmt.Sprintf("%d/%s", s.c.ID, req.Type)
	s.c.W.mu.Lock()
	isDown := s.c.W.down[downKey]
	s.c.W.mu.Unlock()
	if isDown && sched.Active() {
		// sticky outage chosen earlier: fails at once, no new decision
		rc := *req
		s.c.W.record(RPCRecord{Client: s.c.ID, Cmd: req.Type, Req: &rc, Dev: DevDownReq, Label: label, Err: errInjected})
		return nil, errInjected
	}
	arr := int(s.c.W.Seq.Add(1))
	reqCopy := *req // the codec recycles the Request wrapper through a pool: keep our own copy
	if s.c.W.Crashed(s.c.ID) {
		s.blockDead()
		return nil, errClosed
	}
	d := sched.Point(s.c.ID, sched.KRPC, label, &reqCopy)
	if s.c.W.Crashed(s.c.ID) && d.Kind != sched.Abort {
		s.blockDead()
		return nil, errClosed
	}
	rec := RPCRecord{ArrSeq: arr, Client: s.c.ID, Cmd: req.Type, Req: &reqCopy, Dev: d.Kind, Label: label}
	switch d.Kind {
	case sched.Abort:
		return nil, errClosed
	case DevDropReq, DevDownReq:
		if d.Kind == DevDownReq {
			s.c.W.mu.Lock()
			s.c.W.down[downKey] = true
			s.c.W.mu.Unlock()
		}
		rec.Err = errInjected
		s.c.W.record(rec)
		return nil, errInjected
	case DevRegionErr:
		resp, err := tikvrpc.GenRegionErrorResp(req, d.Arg.(*errorpb.Error))
		rec.Resp, rec.Err = resp, err
		s.c.W.record(rec)
		return resp, err
	case DevAnswer:
		resp := d.Arg.(func(*tikvrpc.Request) *tikvrpc.Response)(req)
		rec.Resp = resp
		s.c.W.record(rec)
		return resp, nil
	case DevCrash:
		s.c.W.Crash(s.c.ID)
		s.c.W.record(rec)
		s.blockDead()
		return nil, errClosed
	case DevHook:
		d.Arg.(func())()
	}
	if h := s.c.W.BeforeRPC; h != nil {
		h(s.c, req)
	}
	if debugSeam {
		defer func() {
			if p := recover(); p != nil {
				fmt.Fprintf(os.Stderr, "SEAM store panicked (%v) on c%d %s: %v\n", p, s.c.ID, label, req.Req)
				panic(p)
			}
		}()
	}
	resp, err := s.inner.SendRequest(ctx, addr, req, timeout)
	if h := s.c.W.AfterRPC; h != nil && err == nil && resp != nil {
		resp = h(s.c, req, resp)
	}
	rec.Resp, rec.Err = resp, err
	if req.Type == tikvrpc.CmdPessimisticLock && err == nil && resp != nil && resp.Resp != nil && sched.Active() {
		// A pessimistic lock request that meets a lock waits on the server before it answers. The mock
		// simulates that with a 5 ms sleep under its store mutex (made instant by stime0, see there);
		// the wait is re-created here, outside the store, as a virtual timer: the answer reaches the
		// client only when nothing else is enabled (or when the explorer fires the timer early).
		if r, ok := resp.Resp.(*kvrpcpb.PessimisticLockResponse); ok {
			for _, e := range r.Errors {
				if e != nil && e.Locked != nil {
					stime.Sleep(5 * time.Millisecond)
					break
				}
			}
		}
	}
	if debugSeam && resp != nil {
		if re, _ := resp.GetRegionError(); re != nil {
			fmt.Fprintf(os.Stderr, "SEAM region error for c%d %s ctx=%v: %v\n", s.c.ID, label, req.Context.GetRegionEpoch(), re)
		}
	}
	s.c.W.record(rec)
	// a lost answer surfaces as a plain transport error or - Arg "deadline" - as the typed
	// deadline-exceeded error the batch client / gRPC report for a time-out
	lost := error(errInjected)
	if a, _ := d.Arg.(string); a == "deadline" {
		lost = context.DeadlineExceeded
	}
	switch d.Kind {
	case DevDropResp:
		return nil, lost
	case DevDownResp:
		s.c.W.mu.Lock()
		s.c.W.down[downKey] = true
		s.c.W.mu.Unlock()
		return nil, lost
	case DevCrashDlv:
		s.c.W.Crash(s.c.ID)
		s.blockDead()
		return nil, errClosed
	}
	return resp, err
}

func (s *seamRPC) SendRequestAsync(ctx context.Context, addr string, req *tikvrpc.Request, cb async.Callback[*tikvrpc.Response]) {
	go func() {
		cb.Schedule(s.SendRequest(ctx, addr, req, 0))
	}()
}

func (s *seamRPC) Close() error                                       { return nil }
func (s *seamRPC) CloseAddr(addr string) error                        { return nil }
func (s *seamRPC) SetEventListener(listener tikv.ClientEventListener) {}

// ---- PD seam ----

type seamPD struct {
	pd.Client
	c *Client
}

func (p *seamPD) WithCallerComponent(caller.Component) pd.Client { return p }

func (p *seamPD) GetTS(ctx context.Context) (int64, int64, error) {
	if sched.Gen() != p.c.W.Gen {
		return 0, 0, errClosed
	}
	if p.c.W.Crashed(p.c.ID) {
		(&seamRPC{c: p.c}).blockDead()
		return 0, 0, errClosed
	}
	d := sched.Point(p.c.ID, sched.KTSO, "tso", nil)
	if d.Kind == sched.Abort {
		return 0, 0, errClosed
	}
	if p.c.W.Crashed(p.c.ID) {
		(&seamRPC{c: p.c}).blockDead()
		return 0, 0, errClosed
	}
	ph, l := p.c.W.TSO.Next()
	w := p.c.W
	w.mu.Lock()
	w.TSOLog = append(w.TSOLog, TSORecord{Seq: int(w.Seq.Add(1)), Client: p.c.ID, TS: uint64(ph)<<logicalBits | uint64(l)})
	w.mu.Unlock()
	return ph, l, nil
}

func (p *seamPD) GetLocalTS(ctx context.Context, _ string) (int64, int64, error) { return p.GetTS(ctx) }
func (p *seamPD) GetMinTS(ctx context.Context) (int64, int64, error)             { return p.GetTS(ctx) }

type tsFuture struct {
	p   *seamPD
	ctx context.Context
}

func (f *tsFuture) Wait() (int64, int64, error) { return f.p.GetTS(f.ctx) }

func (p *seamPD) GetTSAsync(ctx context.Context) tso.TSFuture { return &tsFuture{p, ctx} }
func (p *seamPD) GetLocalTSAsync(ctx context.Context, _ string) tso.TSFuture {
	return &tsFuture{p, ctx}
}

// ---- labels ----

func keysOf(req *tikvrpc.Request) [][]byte {
	switch req.Type {
	case tikvrpc.CmdGet:
		return [][]byte{req.Get().Key}
	case tikvrpc.CmdBatchGet:
		return req.BatchGet().Keys
	case tikvrpc.CmdScan:
		return [][]byte{req.Scan().StartKey, req.Scan().EndKey}
	case tikvrpc.CmdPrewrite:
		var ks [][]byte
		for _, m := range req.Prewrite().Mutations {
			ks = append(ks, m.Key)
		}
		return ks
	case tikvrpc.CmdCommit:
		return req.Commit().Keys
	case tikvrpc.CmdCleanup:
		return [][]byte{req.Cleanup().Key}
	case tikvrpc.CmdBatchRollback:
		return req.BatchRollback().Keys
	case tikvrpc.CmdPessimisticLock:
		var ks [][]byte
		for _, m := range req.PessimisticLock().Mutations {
			ks = append(ks, m.Key)
		}
		return ks
	case tikvrpc.CmdPessimisticRollback:
		return req.PessimisticRollback().Keys
	case tikvrpc.CmdTxnHeartBeat:
		return [][]byte{req.TxnHeartBeat().PrimaryLock}
	case tikvrpc.CmdCheckTxnStatus:
		return [][]byte{req.CheckTxnStatus().PrimaryKey}
	case tikvrpc.CmdCheckSecondaryLocks:
		return req.CheckSecondaryLocks().Keys
	case tikvrpc.CmdResolveLock:
		return req.ResolveLock().Keys
	case tikvrpc.CmdScanLock:
		return [][]byte{req.ScanLock().StartKey, req.ScanLock().EndKey}
	case tikvrpc.CmdFlush:
		var ks [][]byte
		for _, m := range req.Flush().Mutations {
			ks = append(ks, m.Key)
		}
		return ks
	case tikvrpc.CmdBufferBatchGet:
		return req.BufferBatchGet().Keys
	}
	return nil
}

// ReqKeys returns the keys a request touches.
func ReqKeys(req *tikvrpc.Request) [][]byte { return keysOf(req) }

// ReqStartTS extracts the transaction start ts a request belongs to (0 if none).
func ReqStartTS(req *tikvrpc.Request) uint64 {
	switch req.Type {
	case tikvrpc.CmdGet:
		return req.Get().Version
	case tikvrpc.CmdBatchGet:
		return req.BatchGet().Version
	case tikvrpc.CmdScan:
		return req.Scan().Version
	case tikvrpc.CmdPrewrite:
		return req.Prewrite().StartVersion
	case tikvrpc.CmdCommit:
		return req.Commit().StartVersion
	case tikvrpc.CmdCleanup:
		return req.Cleanup().StartVersion
	case tikvrpc.CmdBatchRollback:
		return req.BatchRollback().StartVersion
	case tikvrpc.CmdPessimisticLock:
		return req.PessimisticLock().StartVersion
	case tikvrpc.CmdPessimisticRollback:
		return req.PessimisticRollback().StartVersion
	case tikvrpc.CmdTxnHeartBeat:
		return req.TxnHeartBeat().StartVersion
	case tikvrpc.CmdCheckTxnStatus:
		return req.CheckTxnStatus().LockTs
	case tikvrpc.CmdCheckSecondaryLocks:
		return req.CheckSecondaryLocks().StartVersion
	case tikvrpc.CmdResolveLock:
		return req.ResolveLock().StartVersion
	case tikvrpc.CmdFlush:
		return req.Flush().StartTs
	}
	return 0
}

// ReqLabel is the stable identity of a request: command and keys (no timestamps, no region ids).
func ReqLabel(req *tikvrpc.Request) string {
	ks := keysOf(req)
	parts := make([]string, 0, len(ks))
	for _, k := range ks {
		parts = append(parts, string(k))
	}
	extra := ""
	switch req.Type {
	case tikvrpc.CmdResolveLock:
		if req.ResolveLock().CommitVersion > 0 {
			extra = "+commit"
		} else if len(req.ResolveLock().TxnInfos) > 0 {
			extra = "+batch"
		} else {
			extra = "+rollback"
		}
	case tikvrpc.CmdPrewrite:
		if req.Prewrite().TryOnePc {
			extra = "+1pc"
		} else if req.Prewrite().UseAsyncCommit {
			extra = "+async"
		}
	case tikvrpc.CmdCheckTxnStatus:
		if req.CheckTxnStatus().RollbackIfNotExist {
			extra += "+rbne"
		}
	}
	return fmt.Sprintf("%s%s[%s]", req.Type, extra, strings.Join(parts, ","))
}

// SortedKeys helper.
func SortedKeys(m map[string]bool) []string {
	out := make([]string, 0, len(m))
	for k := range m {
		out = append(out, k)
	}
	sort.Strings(out)
	return out
}

var _ = kvrpcpb.Op_Put

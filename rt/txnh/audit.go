package txnh

import (
	"fmt"
	"os"
	"sort"
	"strings"

	"github.com/pingcap/kvproto/pkg/kvrpcpb"
	"github.com/tikv/client-go/v2/verifrt/sched"
)

// Truth is the MVCC ground truth read from the store after an execution.
type Truth struct {
	Keys     []string
	Versions map[string][]Version // newest first
	Locks    []LockRec
	Splits   []string    // region split keys of the layout (for classifying findings)
	Log      []RPCRecord // RPC log of the execution (for classifying findings)
	// CommitOf: start ts -> commit ts for every transaction that has a data/lock record on some key
	CommitOf map[uint64]uint64
}

// ReadTruth dumps the pool keys.
func ReadTruth(b Backend, keys []string) *Truth {
	t := &Truth{Keys: keys, Versions: map[string][]Version{}, CommitOf: map[uint64]uint64{}}
	for _, k := range keys {
		vs := b.Versions([]byte(k))
		t.Versions[k] = vs
	}
	t.Locks = b.Locks()
	return t
}

// VisibleAt returns the value of key at ts (found=false if none / deleted).
func (t *Truth) VisibleAt(key string, ts uint64) (string, bool) {
	for _, v := range t.Versions[key] {
		if v.CommitTS > ts {
			continue
		}
		switch v.Type {
		case "put":
			return v.Value, true
		case "del":
			return "", false
		}
	}
	return "", false
}

// VisibleBefore returns the value of key strictly before ts, ignoring versions written by start ts `self`.
func (t *Truth) VisibleBefore(key string, ts uint64, self uint64) (string, bool) {
	for _, v := range t.Versions[key] {
		if v.CommitTS >= ts || v.StartTS == self {
			continue
		}
		switch v.Type {
		case "put":
			return v.Value, true
		case "del":
			return "", false
		}
	}
	return "", false
}

// committedAfterCheck reports whether the newest version of key below ts (not by self) was
// committed by an RPC applied after self's last prewrite that carried the existence check for key.
func (t *Truth) committedAfterCheck(self uint64, key string, ts uint64) bool {
	var other uint64
	for _, v := range t.Versions[key] {
		if v.CommitTS >= ts || v.StartTS == self {
			continue
		}
		other = v.StartTS
		break
	}
	checkSeq, commitSeq := 0, 0
	for _, r := range t.Log {
		if r.Err != nil || r.Resp == nil {
			continue
		}
		switch q := r.Req.Req.(type) {
		case *kvrpcpb.PrewriteRequest:
			for _, m := range q.Mutations {
				if string(m.Key) != key {
					continue
				}
				if q.StartVersion == self && m.Op == kvrpcpb.Op_CheckNotExists {
					checkSeq = r.Seq
				}
				if q.StartVersion == other && (q.TryOnePc || q.UseAsyncCommit) && commitSeq == 0 {
					commitSeq = r.Seq // may be the commit point for 1PC / async commit
				}
			}
		case *kvrpcpb.CommitRequest:
			if q.StartVersion == other {
				for _, k := range q.Keys {
					if string(k) == key && commitSeq == 0 {
						commitSeq = r.Seq
					}
				}
			}
		case *kvrpcpb.ResolveLockRequest:
			if q.StartVersion == other && q.CommitVersion > 0 && commitSeq == 0 {
				commitSeq = r.Seq
			}
		}
	}
	if os.Getenv("VERIF_DEBUG") != "" {
		fmt.Fprintf(os.Stderr, "committedAfterCheck self=%d key=%s ts=%d other=%d checkSeq=%d commitSeq=%d\n", self, key, ts, other, checkSeq, commitSeq)
		for _, r := range t.Log {
			fmt.Fprintf(os.Stderr, "  #%d c%d %s type=%T err=%v\n", r.Seq, r.Client, r.Label, r.Req.Req, r.Err)
		}
	}
	return checkSeq > 0 && commitSeq > checkSeq
}

func short(s string) string {
	if len(s) > 300 {
		return s[:300] + "..."
	}
	return s
}

// AuditSI is the C01 oracle (DESIGN.md 5 C01 items 1-6) over one finished execution.
// Definite commit errors are never violations by themselves.
func AuditSI(h *History, t *Truth) []sched.Violation {
	var out []sched.Violation
	add := func(key, format string, a ...any) {
		out = append(out, sched.Violation{Key: key, What: short(fmt.Sprintf(format, a...))})
	}
	// (6) one commit ts per transaction, commit ts > start ts
	type wr struct {
		key string
		v   Version
	}
	byStart := map[uint64][]wr{}
	for _, k := range t.Keys {
		for _, v := range t.Versions[k] {
			if v.Type == "rollback" {
				continue
			}
			byStart[v.StartTS] = append(byStart[v.StartTS], wr{k, v})
		}
	}
	for s, ws := range byStart {
		c := ws[0].v.CommitTS
		for _, w := range ws {
			if w.v.CommitTS != c {
				add("si:two-commit-ts", "transaction start=%d has different commit ts on %s (%d) and %s (%d)", s, ws[0].key, c, w.key, w.v.CommitTS)
			}
			if w.v.CommitTS <= s {
				add("si:commit-not-after-start", "transaction start=%d committed %s at %d", s, w.key, w.v.CommitTS)
			}
		}
		t.CommitOf[s] = c
	}
	lockedStart := map[uint64]bool{}
	for _, l := range t.Locks {
		lockedStart[l.StartTS] = true
	}
	for _, x := range h.Txns {
		if x.StartTS == 0 {
			continue
		}
		cts, committed := t.CommitOf[x.StartTS]
		// (7) truthfulness of the acknowledged outcome w.r.t. visibility
		switch x.Outcome {
		case "committed":
			for k, w := range x.Writes {
				found := false
				for _, v := range t.Versions[k] {
					if v.StartTS == x.StartTS && v.Type != "rollback" {
						found = true
						if !w.Del && (v.Type != "put" || v.Value != w.Val) {
							add("si:committed-wrong-value", "%s committed %s=%q but store has %s %q", x.Prog, k, w.Val, v.Type, v.Value)
						}
						if w.Del && !w.Insert && v.Type != "del" {
							add("si:committed-wrong-value", "%s deleted %s but store has %s %q", x.Prog, k, v.Type, v.Value)
						}
					}
				}
				if !found && !(w.Del && w.Insert) && !lockedStart[x.StartTS] {
					add("si:ack-commit-missing-key", "Commit of %s (start=%d) returned nil but key %s has no version of it", x.Prog, x.StartTS, k)
				}
			}
			if x.CommitTS != 0 && committed && x.CommitTS != cts {
				add("si:commit-ts-mismatch", "%s reports commit ts %d, store has %d", x.Prog, x.CommitTS, cts)
			}
		case "failed", "rolledback":
			if committed {
				for _, w := range byStart[x.StartTS] {
					if w.v.Type == "put" || w.v.Type == "del" {
						add("si:failed-but-visible", "%s ended %s (%s) but %s has a committed version of it (commit=%d)", x.Prog, x.Outcome, x.CommitErr, w.key, w.v.CommitTS)
						break
					}
				}
			}
		}
		// (2) reads
		for _, r := range x.Reads {
			if r.Err != "" {
				continue
			}
			readTS := x.StartTS
			if r.Locking {
				readTS = r.ForUpd
			}
			expect := func(k string) (string, bool) {
				if o, ok := r.Own[k]; ok && !r.Locking {
					if o.Del {
						return "", false
					}
					return o.Val, true
				}
				return t.VisibleAt(k, readTS)
			}
			switch r.Kind {
			case "get", "bget", "lockrv":
				for _, k := range r.Keys {
					skip := false
					for _, sk := range r.Skip {
						if sk == k {
							skip = true
						}
					}
					if skip {
						continue
					}
					ev, eok := expect(k)
					gv, gok := r.Got[k]
					if eok != gok || ev != gv {
						add("si:read:"+r.Kind, "%s (start=%d): %s of %s at ts %d returned (%q,%v), MVCC truth (%q,%v); versions=%v", x.Prog, x.StartTS, r.Kind, k, readTS, gv, gok, ev, eok, t.Versions[k])
					}
				}
				for k := range r.Got {
					asked := false
					for _, q := range r.Keys {
						if q == k {
							asked = true
						}
					}
					if !asked {
						add("si:read:extra-key", "%s: %s returned key %s that was not asked for", x.Prog, r.Kind, k)
					}
				}
			case "iter", "riter":
				var want []string
				universe := map[string]bool{}
				for _, k := range t.Keys {
					universe[k] = true
				}
				for k := range r.Own {
					universe[k] = true
				}
				for _, k := range SortedKeys(universe) {
					if (r.Lo != "" && k < r.Lo) || (r.Hi != "" && k >= r.Hi) {
						continue
					}
					if _, ok := expect(k); ok {
						want = append(want, k)
					}
				}
				if r.Kind == "riter" {
					sort.Sort(sort.Reverse(sort.StringSlice(want)))
				}
				if strings.Join(want, ",") != strings.Join(r.Order, ",") {
					if r.Kind == "riter" && r.Hi == "" && len(t.Splits) > 0 {
						// classify: an unbounded reverse scan that yields exactly the keys of the first region
						var first []string
						for _, k := range want {
							if k < t.Splits[0] {
								first = append(first, k)
							}
						}
						if strings.Join(first, ",") == strings.Join(r.Order, ",") {
							add("si:read:riter:unbounded-upper-sees-only-first-region", "%s (start=%d): reverse iteration from the end of the key space yielded %v, MVCC truth %v (region splits %v)", x.Prog, x.StartTS, r.Order, want, t.Splits)
							continue
						}
					}
					add("si:read:"+r.Kind+":keys", "%s (start=%d): %s[%s,%s) yielded keys %v, MVCC truth %v", x.Prog, x.StartTS, r.Kind, r.Lo, r.Hi, r.Order, want)
					continue
				}
				for _, k := range want {
					ev, _ := expect(k)
					if r.Got[k] != ev {
						add("si:read:"+r.Kind+":value", "%s (start=%d): %s yielded %s=%q, MVCC truth %q", x.Prog, x.StartTS, r.Kind, k, r.Got[k], ev)
					}
				}
			}
		}
		if !committed {
			continue
		}
		// (4) insert
		for k := range x.Inserted {
			if v, ok := t.VisibleBefore(k, cts, x.StartTS); ok {
				if w := x.Writes[k]; w.Del && w.Insert && !x.Mode.Pessimistic && t.committedAfterCheck(x.StartTS, k, cts) {
					// insert-then-delete is sent as a non-locking existence check; the other transaction's
					// commit was applied after that check and before this transaction's commit
					add("si:insert-then-delete:key-committed-between-existence-check-and-commit", "%s (start=%d commit=%d): insert(%s);delete(%s) committed although %s=%q was committed (after the existence check passed) before its commit point", x.Prog, x.StartTS, cts, k, k, k, v)
					continue
				}
				add("si:insert-over-existing", "%s (start=%d commit=%d) declared %s an insert and committed, but %s had value %q at its commit point", x.Prog, x.StartTS, cts, k, k, v)
			}
		}
		// (3b) between a successful pessimistic lock of k and the locker's commit nobody else commits k
		for _, l := range x.Locks {
			for _, v := range t.Versions[l.Key] {
				if v.StartTS != x.StartTS && v.Type != "rollback" && v.Type != "lock" && v.CommitTS > l.ForUpd && v.CommitTS < cts {
					add("si:commit-under-pessimistic-lock", "%s locked %s at for-update ts %d and committed at %d, but start=%d committed %s at %d in between", x.Prog, l.Key, l.ForUpd, cts, v.StartTS, l.Key, v.CommitTS)
				}
			}
		}
	}
	// (3c) the same for a locker that did not commit: while it held the lock (from the return of the locking
	// call to its own Commit / Rollback call) no other transaction's Commit that wrote the key began and
	// succeeded (judged in real time: both ends of that Commit lie inside the holding interval)
	for _, x := range h.Txns {
		if !x.Mode.Pessimistic || x.Outcome == "committed" || x.EndCallSeq == 0 {
			continue
		}
		for _, l := range x.Locks {
			if l.Weak {
				continue
			}
			for _, y := range h.Txns {
				if y == x || y.Outcome != "committed" || y.CommitCallSeq <= l.Seq || y.CommitRetSeq == 0 || y.CommitRetSeq >= x.EndCallSeq {
					continue
				}
				if _, wrote := y.Writes[l.Key]; wrote {
					add("si:commit-under-pessimistic-lock:locker-still-open", "%s locked %s (for-update ts %d) and had not yet ended, but %s (start=%d) wrote %s and its Commit began and succeeded in between", x.Prog, l.Key, l.ForUpd, y.Prog, y.StartTS, l.Key)
				}
			}
		}
	}
	// (3d) a lock that was acquired is held until the locker ends: if Commit of a pessimistic transaction
	// fails because its pessimistic lock is gone although no other client ever asked the store to expire,
	// roll back or resolve that transaction, then the lock was lost while the locker was alive (anything
	// could have committed on the key in between). Needs the RPC log.
	if len(t.Log) > 0 {
		for _, x := range h.Txns {
			if !x.Mode.Pessimistic || x.Outcome != "failed" || !strings.Contains(x.CommitErr, "pessimistic lock not found") {
				continue
			}
			held := false
			for _, l := range x.Locks {
				held = held || !l.Weak
			}
			if !held {
				continue
			}
			touched := false
			for _, r := range t.Log {
				if r.Client == x.Client || r.Req == nil {
					continue
				}
				switch q := r.Req.Req.(type) {
				case *kvrpcpb.CheckTxnStatusRequest:
					touched = touched || q.LockTs == x.StartTS
				case *kvrpcpb.ResolveLockRequest:
					touched = touched || q.StartVersion == x.StartTS
					for _, ti := range q.TxnInfos {
						touched = touched || ti.Txn == x.StartTS
					}
				case *kvrpcpb.CleanupRequest:
					touched = touched || q.StartVersion == x.StartTS
				case *kvrpcpb.BatchRollbackRequest:
					touched = touched || q.StartVersion == x.StartTS
				case *kvrpcpb.PessimisticRollbackRequest:
					touched = touched || q.StartVersion == x.StartTS
				case *kvrpcpb.CheckSecondaryLocksRequest:
					touched = touched || q.StartVersion == x.StartTS
				}
			}
			if !touched {
				add("si:pessimistic-lock-lost-before-commit", "%s (start=%d) had locked %v successfully, nobody else asked the store to expire / roll back / resolve it, yet its Commit failed with %q: the lock was not held until the locker ended", x.Prog, x.StartTS, x.Locks, x.CommitErr)
			}
		}
	}
	// (3a) no two committed transactions with overlapping intervals wrote the same key.
	// For a key that a pessimistic transaction locked before writing it, its interval on that key starts at the
	// for-update ts of that lock (that is the snapshot it wrote against).
	startOn := func(x *TxnRec, k string) uint64 {
		s := x.StartTS
		if x.Mode.Pessimistic {
			for _, l := range x.Locks {
				if l.Key == k && l.ForUpd > s {
					s = l.ForUpd
				}
			}
		}
		return s
	}
	recByStart := map[uint64]*TxnRec{}
	for _, x := range h.Txns {
		if x.StartTS != 0 {
			recByStart[x.StartTS] = x
		}
	}
	for _, k := range t.Keys {
		vs := t.Versions[k]
		for i := 0; i < len(vs); i++ {
			for j := i + 1; j < len(vs); j++ {
				a, b := vs[i], vs[j] // a newer than b
				if (a.Type != "put" && a.Type != "del") || (b.Type != "put" && b.Type != "del") {
					continue
				}
				xa := recByStart[a.StartTS]
				if xa == nil {
					continue
				}
				sa := startOn(xa, k)
				if sa < b.CommitTS { // a's snapshot on k is older than b's commit, yet a committed after b
					add("si:lost-update", "key %s: start=%d (snapshot on key %d, commit %d) and start=%d (commit %d) both committed writes with overlapping intervals", k, a.StartTS, sa, a.CommitTS, b.StartTS, b.CommitTS)
				}
			}
		}
	}
	// (5) real time order
	for _, a := range h.Txns {
		if a.Outcome != "committed" {
			continue
		}
		ca, ok := t.CommitOf[a.StartTS]
		if !ok {
			continue // read-only
		}
		for _, b := range h.Txns {
			if b.StartTS == 0 || b == a || b.BeginCallSeq < a.CommitRetSeq {
				continue
			}
			if b.StartTS < ca {
				add("si:external-consistency", "%s was acknowledged (commit ts %d) before %s began, but its start ts %d is smaller", a.Prog, ca, b.Prog, b.StartTS)
			}
		}
	}
	return out
}

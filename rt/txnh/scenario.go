package txnh

import (
	"fmt"
	"sort"
	"strings"

	"github.com/tikv/client-go/v2/verifrt/sched"
)

// TxnScenario is the generic scenario of the transactional checks: N clients
// each running a list of transaction programs over one backend.
type TxnScenario struct {
	ID         string
	NewBackend func() Backend
	Progs      [][]Program // per client
	Keys       []string    // key pool (ground truth is read for these)
	MenuFn     func(s *TxnScenario, e *sched.Event) []sched.Dev
	ExtraFn    func(s *TxnScenario) []sched.Choice
	CheckFn    func(s *TxnScenario, x *sched.Exec) []sched.Violation
	SetupFn    func(s *TxnScenario) // after the world is built, before drivers start
	StateKeyFn func(s *TxnScenario) string

	W *World
	H *History
}

func (s *TxnScenario) Name() string { return s.ID }

func (s *TxnScenario) Setup() {
	s.W = NewWorld(s.NewBackend(), len(s.Progs))
	s.H = &History{W: s.W}
	if s.SetupFn != nil {
		s.SetupFn(s)
	}
	for i, ps := range s.Progs {
		c := s.W.Clients[i]
		ps := ps
		recs := NewRecs(s.H, i, ps)
		sched.Go(fmt.Sprint("client", i), func() { c.RunPrograms(s.H, ps, recs) })
	}
}

func (s *TxnScenario) Menu(e *sched.Event) []sched.Dev {
	if s.MenuFn == nil {
		return nil
	}
	return s.MenuFn(s, e)
}

func (s *TxnScenario) Extra() []sched.Choice {
	if s.ExtraFn == nil {
		return nil
	}
	return s.ExtraFn(s)
}

func (s *TxnScenario) StateKey() string {
	if s.StateKeyFn == nil {
		return ""
	}
	return s.StateKeyFn(s)
}

func (s *TxnScenario) Check(x *sched.Exec) []sched.Violation {
	if s.CheckFn == nil {
		return nil
	}
	return s.CheckFn(s, x)
}

func (s *TxnScenario) Teardown() {
	if s.W != nil {
		s.W.Close()
		s.W = nil
	}
}

// OutcomeString summarises the transactions' outcomes (for distinct-outcome counts).
func (s *TxnScenario) OutcomeString() string {
	var parts []string
	for _, t := range s.H.Txns {
		o := t.Outcome
		if t.CommitErr != "" {
			o += "(" + t.CommitErr + ")"
		}
		rd := []string{}
		for _, r := range t.Reads {
			ks := Keys(r.Got)
			vs := make([]string, len(ks))
			for i, k := range ks {
				vs[i] = k + "=" + r.Got[k]
			}
			rd = append(rd, strings.Join(vs, ","))
		}
		parts = append(parts, o+"{"+strings.Join(rd, "|")+"}")
	}
	return strings.Join(parts, " ")
}

// DefaultStateKey: store dump + locks + TSO position + per-transaction
// observations + real-time order of API events. Two executions with equal key
// and equal pending sets have equal futures and equal oracle-relevant pasts.
func DefaultStateKey(s *TxnScenario) string {
	var sb strings.Builder
	t := ReadTruth(s.W.B, s.Keys)
	for _, k := range t.Keys {
		fmt.Fprintf(&sb, "%s:%v;", k, t.Versions[k])
	}
	ls := t.Locks
	sort.Slice(ls, func(i, j int) bool { return ls[i].Key < ls[j].Key })
	fmt.Fprintf(&sb, "L%v;T%d;N%d;", ls, s.W.TSO.Max(), sched.NowNS())
	for _, x := range s.H.Txns {
		fmt.Fprintf(&sb, "[%d.%d %s %d b%d/%d c%d/%d %s r%v l%v e%v]", x.Client, x.Index, x.Outcome, x.StartTS, x.BeginCallSeq, x.BeginRetSeq, x.CommitCallSeq, x.CommitRetSeq, x.CommitErr, x.Reads, x.Locks, x.OpErrs)
	}
	return sb.String()
}

package txnh

import (
	"context"
	"fmt"
	"sort"
	"strings"
	"sync/atomic"

	tikverr "github.com/tikv/client-go/v2/error"
	"github.com/tikv/client-go/v2/kv"
	"github.com/tikv/client-go/v2/tikv"
	"github.com/tikv/client-go/v2/txnkv/transaction"
	"github.com/tikv/client-go/v2/verifrt/sched"
)

// Mode of a transaction.
type Mode struct {
	Pessimistic bool
	Async       bool
	OnePC       bool
	Causal      bool
	Pipelined   bool // pipelined DML transaction (flushes its buffer to the store while running)
}

func (m Mode) String() string {
	s := "opt"
	if m.Pessimistic {
		s = "pess"
	}
	switch {
	case m.OnePC && m.Async:
		s += "-1pc+async"
	case m.OnePC:
		s += "-1pc"
	case m.Async:
		s += "-async"
	default:
		s += "-2pc"
	}
	if m.Causal {
		s += "-causal"
	}
	if m.Pipelined {
		s += "-pipelined"
	}
	return s
}

// Op is one API call of a transaction program.
type Op struct {
	Kind string // get bget iter riter set insert delete lock lockrv commit rollback
	Key  string
	Keys []string
	Lo   string
	Hi   string
	// lock options
	NoWait     bool
	NoRetry    bool // do not retry the lock call after a write conflict
	CheckExist bool
	OnlyExist  bool
	WaitMS     int64 // lock wait time-out in ms (0: wait for ever unless NoWait)
}

func (o Op) String() string {
	switch o.Kind {
	case "bget", "lock", "lockrv":
		s := o.Kind
		if o.Key != "" {
			return s + "(" + o.Key + ")"
		}
		return s + "(" + strings.Join(o.Keys, ",") + ")"
	case "iter", "riter":
		return fmt.Sprintf("%s[%s,%s)", o.Kind, o.Lo, o.Hi)
	case "commit", "rollback":
		return o.Kind
	}
	return o.Kind + "(" + o.Key + ")"
}

// Program is one transaction.
type Program struct {
	Mode Mode
	Ops  []Op
	// KeepGoing: continue the program after a failed lock call (C06 explores arbitrary call
	// sequences "some of which failed"); default: a failed locking call aborts the transaction.
	KeepGoing bool
}

func (p Program) String() string {
	ss := make([]string, len(p.Ops))
	for i, o := range p.Ops {
		ss[i] = o.String()
	}
	return p.Mode.String() + ":" + strings.Join(ss, ";")
}

// ReadRec is one read observation.
type ReadRec struct {
	Seq     int
	Kind    string
	Keys    []string          // keys asked for (get/bget/lockrv) or bounds (iter: Lo,Hi)
	Lo, Hi  string            // iter bounds
	Got     map[string]string // key -> value for found keys
	Order   []string          // iteration order of returned keys
	Err     string            // non-empty: the read failed, Got is meaningless
	Own     map[string]OwnW   // the transaction's own buffered writes at that moment (all keys)
	ForUpd  uint64            // for locking reads: the for-update ts used
	Skip    []string          // keys for which the API returned no information by contract
	Locking bool
}

// OwnW is a buffered write.
type OwnW struct {
	Del    bool
	Val    string
	Insert bool // presumed not to exist
}

// LockRecH records a successful pessimistic lock of a key.
type LockRecH struct {
	Seq    int
	Key    string
	ForUpd uint64
	Weak   bool // lock-only-if-exists: the key may not have been locked at all
}

// TxnRec is what the driver observed for one transaction.
type TxnRec struct {
	Client, Index int
	Mode          Mode
	Prog          string
	BeginCallSeq  int
	BeginRetSeq   int
	StartTS       uint64
	Reads         []ReadRec
	Locks         []LockRecH
	OptLocked     []string // keys an optimistic transaction asked to lock (LockKeys): prewritten as Op_Lock unless written
	Writes        map[string]OwnW // final buffer content
	Inserted      map[string]bool // keys that were ever declared insert in this txn
	OpErrs        []string
	CommitCalled  bool
	CommitCallSeq int
	CommitRetSeq  int
	EndCallSeq    int // sequence number taken right before Commit / Rollback was called
	CommitErr     string
	CommitTS      uint64
	Outcome       string // open | committed | failed | undetermined | rolledback
	MaxIssuedAtCommitCall uint64
}

// History of one execution.
type History struct {
	Txns []*TxnRec
	seq  atomic.Int64
	W    *World // when set, the world's event sequence is used (one order for API events, RPCs and timestamps)
}

func (h *History) next() int {
	if h.W != nil {
		return int(h.W.Seq.Add(1))
	}
	return int(h.seq.Add(1))
}

// ValueOf builds the unique value written by (client, txn, op).
func ValueOf(client, txn, op int) string { return fmt.Sprintf("v%d.%d.%d", client, txn, op) }

func cloneOwn(m map[string]OwnW) map[string]OwnW {
	out := make(map[string]OwnW, len(m))
	for k, v := range m {
		out[k] = v
	}
	return out
}

// RunPrograms executes the transactions of one client sequentially (driver goroutine body).
func (c *Client) RunPrograms(h *History, progs []Program, recs []*TxnRec) {
	for i, p := range progs {
		if !c.runTxn(h, i, p, recs[i]) {
			return
		}
	}
}

// NewRecs allocates the records (so that the oracle sees unfinished ones too).
func NewRecs(h *History, client int, progs []Program) []*TxnRec {
	recs := make([]*TxnRec, len(progs))
	for i, p := range progs {
		recs[i] = &TxnRec{Client: client, Index: i, Mode: p.Mode, Prog: p.String(), Outcome: "unstarted", Writes: map[string]OwnW{}, Inserted: map[string]bool{}}
		h.Txns = append(h.Txns, recs[i])
	}
	return recs
}

func errClass(err error) string {
	switch {
	case err == nil:
		return ""
	case tikverr.IsErrorUndetermined(err):
		return "undetermined"
	case tikverr.IsErrWriteConflict(err):
		return "write-conflict"
	case tikverr.IsErrKeyExist(err):
		return "key-exists"
	case tikverr.IsErrNotFound(err):
		return "not-found"
	}
	s := err.Error()
	switch {
	case strings.Contains(s, "deadlock") || strings.Contains(s, "Deadlock"):
		return "deadlock"
	case strings.Contains(s, "lock wait timeout") || strings.Contains(s, "LockWaitTimeout"):
		return "lock-wait-timeout"
	case strings.Contains(s, "LockAcquireFailAndNoWaitSet") || strings.Contains(s, "NoWait"):
		return "lock-nowait"
	case strings.Contains(s, "verif: execution closed"):
		return "closed"
	}
	if len(s) > 120 {
		s = s[:120]
	}
	return "other:" + s
}

func (c *Client) runTxn(h *History, idx int, p Program, rec *TxnRec) bool {
	if d := sched.Point(c.ID, sched.KAPI, "begin", nil); d.Kind == sched.Abort {
		return false
	}
	rec.Outcome = "open"
	rec.BeginCallSeq = h.next()
	var bopts []tikv.TxnOption
	if p.Mode.Pipelined {
		bopts = append(bopts, tikv.WithPipelinedTxn(1, 1, 0))
	}
	txn, err := c.Store.Begin(bopts...)
	if err != nil {
		rec.OpErrs = append(rec.OpErrs, "begin:"+errClass(err))
		rec.Outcome = "failed"
		return false
	}
	c.open = append(c.open, txn)
	rec.BeginRetSeq = h.next()
	rec.StartTS = txn.StartTS()
	if !p.Mode.Pipelined { // a pipelined transaction rejects these setters
		txn.SetPessimistic(p.Mode.Pessimistic)
		txn.SetEnableAsyncCommit(p.Mode.Async)
		txn.SetEnable1PC(p.Mode.OnePC)
		txn.SetCausalConsistency(p.Mode.Causal)
	}
	ctx := context.Background()
	own := rec.Writes
	for oi, op := range p.Ops {
		if p.Mode.Pipelined && op.Kind != "commit" {
			// memory-only calls have no seam of their own: make each call a scheduling point so that a
			// running flush can complete before or after it
			if d := sched.Point(c.ID, sched.KAPI, "op:"+op.Kind, nil); d.Kind == sched.Abort {
				return false
			}
		}
		switch op.Kind {
		case "flush":
			if _, err := txn.GetMemBuffer().Flush(true); err != nil {
				rec.OpErrs = append(rec.OpErrs, "flush:"+errClass(err))
			}
		case "flushwait":
			if err := txn.GetMemBuffer().FlushWait(); err != nil {
				rec.OpErrs = append(rec.OpErrs, "flushwait:"+errClass(err))
			}
		case "get":
			r := ReadRec{Kind: "get", Keys: []string{op.Key}, Got: map[string]string{}, Own: cloneOwn(own)}
			v, err := txn.Get(ctx, []byte(op.Key))
			if err == nil {
				r.Got[op.Key] = string(v.Value)
			} else if !tikverr.IsErrNotFound(err) {
				r.Err = errClass(err)
			}
			r.Seq = h.next()
			rec.Reads = append(rec.Reads, r)
		case "bget":
			r := ReadRec{Kind: "bget", Keys: op.Keys, Got: map[string]string{}, Own: cloneOwn(own)}
			ks := make([][]byte, len(op.Keys))
			for i, k := range op.Keys {
				ks[i] = []byte(k)
			}
			m, err := txn.BatchGet(ctx, ks)
			if err != nil {
				r.Err = errClass(err)
			}
			for k, v := range m {
				r.Got[k] = string(v.Value)
			}
			r.Seq = h.next()
			rec.Reads = append(rec.Reads, r)
		case "iter", "riter":
			r := ReadRec{Kind: op.Kind, Lo: op.Lo, Hi: op.Hi, Got: map[string]string{}, Own: cloneOwn(own)}
			var lo, hi []byte
			if op.Lo != "" {
				lo = []byte(op.Lo)
			}
			if op.Hi != "" {
				hi = []byte(op.Hi)
			}
			var it interface {
				Valid() bool
				Next() error
				Key() []byte
				Value() []byte
				Close()
			}
			var err error
			if op.Kind == "iter" {
				it, err = txn.Iter(lo, hi)
			} else {
				it, err = txn.IterReverse(hi, lo)
			}
			if err != nil {
				r.Err = errClass(err)
			} else {
				for n := 0; it.Valid() && n < 64; n++ {
					k := string(it.Key())
					r.Order = append(r.Order, k)
					r.Got[k] = string(it.Value())
					if err := it.Next(); err != nil {
						r.Err = errClass(err)
						break
					}
				}
				it.Close()
			}
			r.Seq = h.next()
			rec.Reads = append(rec.Reads, r)
		case "set":
			v := ValueOf(c.ID, idx, oi)
			if err := txn.Set([]byte(op.Key), []byte(v)); err != nil {
				rec.OpErrs = append(rec.OpErrs, "set:"+errClass(err))
			} else {
				o := own[op.Key]
				own[op.Key] = OwnW{Val: v, Insert: o.Insert}
			}
		case "insert":
			v := ValueOf(c.ID, idx, oi)
			if err := txn.GetMemBuffer().SetWithFlags([]byte(op.Key), []byte(v), kv.SetPresumeKeyNotExists); err != nil {
				rec.OpErrs = append(rec.OpErrs, "insert:"+errClass(err))
			} else {
				own[op.Key] = OwnW{Val: v, Insert: true}
				rec.Inserted[op.Key] = true
			}
		case "delete":
			if err := txn.Delete([]byte(op.Key)); err != nil {
				rec.OpErrs = append(rec.OpErrs, "delete:"+errClass(err))
			} else {
				own[op.Key] = OwnW{Del: true, Insert: own[op.Key].Insert}
			}
		case "lock", "lockrv":
			keys := op.Keys
			if op.Key != "" {
				keys = []string{op.Key}
			}
			ks := make([][]byte, len(keys))
			for i, k := range keys {
				ks[i] = []byte(k)
			}
			// like TiDB: on a write conflict take a fresh for-update ts and retry (bounded)
			lockFailed := true // until an attempt succeeds
			for attempt := 0; attempt < 3; attempt++ {
				fts := txn.StartTS()
				if p.Mode.Pessimistic {
					fts, err = c.Store.CurrentTimestamp("global")
					if err != nil {
						rec.OpErrs = append(rec.OpErrs, "lock-ts:"+errClass(err))
						break
					}
				}
				wait := kv.LockAlwaysWait
				if op.NoWait {
					wait = kv.LockNoWait
				} else if op.WaitMS > 0 {
					wait = op.WaitMS
				}
				lctx := kv.NewLockCtx(fts, wait, sched.Now())
				if op.Kind == "lockrv" {
					lctx.InitReturnValues(len(ks))
				}
				if op.CheckExist {
					lctx.InitCheckExistence(len(ks))
				}
				lctx.LockOnlyIfExists = op.OnlyExist
				err = txn.LockKeys(ctx, lctx, ks...)
				if err != nil && tikverr.IsErrWriteConflict(err) && p.Mode.Pessimistic && !op.NoRetry {
					rec.OpErrs = append(rec.OpErrs, "lock:write-conflict-retry")
					// a failed lock call drops the presume-not-exists mark of its keys; the retried
					// statement declares its inserts again (as TiDB re-executes the statement)
					for _, k := range keys {
						if o, ok := own[k]; ok && o.Insert {
							txn.GetMemBuffer().UpdateFlags([]byte(k), kv.SetPresumeKeyNotExists)
						}
					}
					continue
				}
				if err != nil {
					rec.OpErrs = append(rec.OpErrs, "lock:"+errClass(err))
					break
				}
				lockFailed = false
				seq := h.next()
				if p.Mode.Pessimistic {
					for _, k := range keys {
						rec.Locks = append(rec.Locks, LockRecH{Seq: seq, Key: k, ForUpd: lctx.ForUpdateTS, Weak: op.OnlyExist})
					}
				} else {
					for _, k := range keys {
						rec.OptLocked = append(rec.OptLocked, k)
					}
				}
				if op.Kind == "lockrv" && p.Mode.Pessimistic {
					r := ReadRec{Kind: "lockrv", Keys: keys, Got: map[string]string{}, Own: map[string]OwnW{}, ForUpd: lctx.ForUpdateTS, Locking: true, Seq: seq}
					for _, k := range keys {
						rv, ok := lctx.Values[k]
						if ok && rv.AlreadyLocked {
							// the key was locked earlier in this transaction: no value is returned by contract
							r.Skip = append(r.Skip, k)
							continue
						}
						if ok && rv.Exists {
							r.Got[k] = string(rv.Value)
						}
					}
					rec.Reads = append(rec.Reads, r)
				}
				break
			}
			if lockFailed && p.Mode.Pessimistic && !p.KeepGoing {
				// a failed locking statement aborts the transaction (a well-formed caller does not
				// commit writes whose lock it failed to get)
				_ = txn.Rollback()
				rec.CommitRetSeq = h.next()
				rec.Outcome = "rolledback"
				return true
			}
		case "aggr-start":
			if p.Mode.Pessimistic && !txn.IsInAggressiveLockingMode() {
				txn.StartAggressiveLocking()
			}
		case "aggr-retry":
			if txn.IsInAggressiveLockingMode() {
				txn.RetryAggressiveLocking(ctx)
			}
		case "aggr-cancel":
			if txn.IsInAggressiveLockingMode() {
				txn.CancelAggressiveLocking(ctx)
			}
		case "aggr-done":
			if txn.IsInAggressiveLockingMode() {
				txn.DoneAggressiveLocking(ctx)
			}
		case "commit":
			if txn.IsInAggressiveLockingMode() {
				txn.DoneAggressiveLocking(ctx) // well-formed callers end the aggressive-locking stage first
			}
			if d := sched.Point(c.ID, sched.KAPI, "commit", nil); d.Kind == sched.Abort {
				return false
			}
			rec.CommitCalled = true
			rec.MaxIssuedAtCommitCall = c.W.TSO.Max()
			rec.CommitCallSeq = h.next()
			rec.EndCallSeq = rec.CommitCallSeq
			err := txn.Commit(ctx)
			rec.CommitRetSeq = h.next()
			rec.CommitTS = txn.CommitTS()
			switch cl := errClass(err); cl {
			case "":
				rec.Outcome = "committed"
			case "undetermined":
				rec.Outcome, rec.CommitErr = "undetermined", cl
			case "closed":
				rec.Outcome = "open"
				return false
			default:
				rec.Outcome, rec.CommitErr = "failed", cl
			}
			return true
		case "rollback":
			if txn.IsInAggressiveLockingMode() {
				txn.CancelAggressiveLocking(ctx)
			}
			rec.EndCallSeq = h.next()
			err := txn.Rollback()
			rec.CommitRetSeq = h.next()
			if err != nil {
				rec.OpErrs = append(rec.OpErrs, "rollback:"+errClass(err))
			}
			rec.Outcome = "rolledback"
			return true
		}
		if !sched.Active() {
			return false
		}
	}
	// program without terminal op: roll back
	if txn.IsInAggressiveLockingMode() {
		txn.CancelAggressiveLocking(ctx)
	}
	_ = txn.Rollback()
	rec.CommitRetSeq = h.next()
	rec.Outcome = "rolledback"
	return true
}

// Keys returns the sorted keys of a map.
func Keys[V any](m map[string]V) []string {
	out := make([]string, 0, len(m))
	for k := range m {
		out = append(out, k)
	}
	sort.Strings(out)
	return out
}

var _ = transaction.TsoMaxBackoff

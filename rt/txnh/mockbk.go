package txnh

import (
	"bytes"
	"sort"

	"github.com/pingcap/kvproto/pkg/kvrpcpb"
	"github.com/tikv/client-go/v2/internal/mockstore/mocktikv"
	"github.com/tikv/client-go/v2/tikv"
	pd "github.com/tikv/pd/client"
)

// MockBackend is the in-repo mock TiKV (mocktikv) as a Backend.
type MockBackend struct {
	Cluster *mocktikv.Cluster
	Store   *mocktikv.MVCCLevelDB
	rpc     *mocktikv.RPCClient
	pdc     pd.Client
	StoreIDs []uint64
}

// NewMockBackend creates a mock cluster with nStores stores and one region,
// then splits at the given keys.
func NewMockBackend(nStores int, splitKeys ...string) *MockBackend {
	st, err := mocktikv.NewMVCCLevelDB("")
	if err != nil {
		panic(err)
	}
	cl := mocktikv.NewCluster(st)
	b := &MockBackend{Cluster: cl, Store: st}
	if nStores <= 1 {
		sid, _, _ := mocktikv.BootstrapWithSingleStore(cl)
		b.StoreIDs = []uint64{sid}
	} else {
		sids, _, _, _ := mocktikv.BootstrapWithMultiStores(cl, nStores)
		b.StoreIDs = sids
	}
	b.rpc = mocktikv.NewRPCClient(cl, st, nil)
	b.pdc = mocktikv.NewPDClient(cl)
	for _, k := range splitKeys {
		b.SplitAt([]byte(k))
	}
	return b
}

func (b *MockBackend) Name() string     { return "mocktikv" }
func (b *MockBackend) RPC() tikv.Client { return b.rpc }
func (b *MockBackend) PD() pd.Client    { return b.pdc }

func (b *MockBackend) SplitAt(key []byte) {
	// the cluster keeps region ranges in mem-comparable form and looks keys up in that form
	r, _, _, _ := b.Cluster.GetRegionByKey(mocktikv.NewMvccKey(key))
	if r == nil || bytes.Equal(r.StartKey, mocktikv.NewMvccKey(key)) {
		return
	}
	n := len(r.Peers)
	ids := b.Cluster.AllocIDs(n + 1)
	// keep the leader on the same store as the parent region's first peer
	b.Cluster.Split(r.Id, ids[0], key, ids[1:], ids[1])
}

func (b *MockBackend) TransferLeader(key []byte) {
	r, leader, _, _ := b.Cluster.GetRegionByKey(mocktikv.NewMvccKey(key))
	if r == nil || len(r.Peers) < 2 {
		return
	}
	for i, p := range r.Peers {
		if leader != nil && p.Id == leader.Id {
			b.Cluster.ChangeLeader(r.Id, r.Peers[(i+1)%len(r.Peers)].Id)
			return
		}
	}
	b.Cluster.ChangeLeader(r.Id, r.Peers[0].Id)
}

func opName(op kvrpcpb.Op) string {
	switch op {
	case kvrpcpb.Op_Put:
		return "put"
	case kvrpcpb.Op_Del:
		return "del"
	case kvrpcpb.Op_Lock:
		return "lock"
	case kvrpcpb.Op_Rollback:
		return "rollback"
	case kvrpcpb.Op_PessimisticLock:
		return "pessimistic"
	case kvrpcpb.Op_Insert:
		return "insert"
	case kvrpcpb.Op_CheckNotExists:
		return "check-not-exists"
	}
	return op.String()
}

func (b *MockBackend) Versions(key []byte) []Version {
	info := b.Store.MvccGetByKey(key)
	if info == nil {
		return nil
	}
	vals := map[uint64]string{}
	for _, v := range info.Values {
		vals[v.StartTs] = string(v.Value)
	}
	var out []Version
	for _, w := range info.Writes {
		v := Version{StartTS: w.StartTs, CommitTS: w.CommitTs, Type: opName(w.Type)}
		if w.Type == kvrpcpb.Op_Put {
			if w.ShortValue != nil {
				v.Value = string(w.ShortValue)
			} else {
				v.Value = vals[w.StartTs]
			}
		}
		out = append(out, v)
	}
	sort.SliceStable(out, func(i, j int) bool { return out[i].CommitTS > out[j].CommitTS })
	return out
}

func (b *MockBackend) Locks() []LockRec {
	ls, err := b.Store.ScanLock(nil, nil, ^uint64(0))
	if err != nil {
		return nil
	}
	var out []LockRec
	for _, l := range ls {
		out = append(out, LockRec{Key: string(l.Key), Primary: string(l.PrimaryLock), StartTS: l.LockVersion, Type: opName(l.LockType), TTL: l.LockTtl})
	}
	return out
}

func (b *MockBackend) Close() {
	b.rpc.Close()
	b.Store.Close()
}

package vtime

import (
	"sort"
	"sync"
	"time"
)

// Clock is a manual virtual clock and a ready-made Controller. Time moves
// only through Advance / AdvanceTo / AdvanceToNext. Timers fire in (deadline,
// creation order) order, each exactly at its deadline (Now() == deadline
// inside the fire callback), with no lock held.
//
// Single-goroutine use (the code under test arms a timer and then blocks on it
// in the same goroutine): set OnStart. It runs inside the arming call, after
// the timer is registered, and must make progress possible before it returns:
// call Advance(d) to let the timer fire, or make another branch of the
// caller's select ready (cancel a context) and leave the timer pending.
//
// Multi-goroutine use: leave OnStart nil; a scheduler calls Pending and
// AdvanceToNext when every goroutine is parked.
type Clock struct {
	mu     sync.Mutex
	start  time.Time
	now    time.Time
	seq    uint64
	timers []*clockTimer

	// OnStart, if not nil, is called (no lock held) on the goroutine that armed
	// a timer or called Sleep, right after the timer was registered.
	OnStart func(c *Clock, d time.Duration)
}

type clockTimer struct {
	c     *Clock
	when  time.Time
	seq   uint64
	fire  func(now time.Time)
	state int // 0 pending, 1 fired, 2 stopped
}

// DefaultStart is the instant a NewClock(time.Time{}) starts at.
var DefaultStart = time.Date(2026, 1, 1, 0, 0, 0, 0, time.UTC)

// NewClock returns a clock standing at start (DefaultStart for the zero Time).
func NewClock(start time.Time) *Clock {
	if start.IsZero() {
		start = DefaultStart
	}
	return &Clock{start: start, now: start}
}

// Now implements Controller.
func (c *Clock) Now() time.Time {
	c.mu.Lock()
	defer c.mu.Unlock()
	return c.now
}

// Elapsed returns the virtual time passed since the clock was created.
func (c *Clock) Elapsed() time.Duration {
	c.mu.Lock()
	defer c.mu.Unlock()
	return c.now.Sub(c.start)
}

// StartTimer implements Controller.
func (c *Clock) StartTimer(d time.Duration, fire func(now time.Time)) Stopper {
	if d < 0 {
		d = 0
	}
	c.mu.Lock()
	c.seq++
	t := &clockTimer{c: c, when: c.now.Add(d), seq: c.seq, fire: fire}
	i := sort.Search(len(c.timers), func(i int) bool {
		o := c.timers[i]
		return o.when.After(t.when)
	})
	c.timers = append(c.timers, nil)
	copy(c.timers[i+1:], c.timers[i:])
	c.timers[i] = t
	hook := c.OnStart
	c.mu.Unlock()
	if hook != nil {
		hook(c, d)
	}
	return t
}

// Stop implements Stopper.
func (t *clockTimer) Stop() bool {
	c := t.c
	c.mu.Lock()
	defer c.mu.Unlock()
	if t.state != 0 {
		return false
	}
	t.state = 2
	for i, o := range c.timers {
		if o == t {
			c.timers = append(c.timers[:i], c.timers[i+1:]...)
			break
		}
	}
	return true
}

// Sleep implements Controller: it arms a timer and waits for it. With OnStart
// advancing the clock the wait is already over when the hook returns;
// otherwise the caller parks until another goroutine advances the clock.
func (c *Clock) Sleep(d time.Duration) {
	done := make(chan struct{})
	c.StartTimer(d, func(time.Time) { close(done) })
	<-done
}

// Pending returns the remaining durations of all pending timers, earliest first.
func (c *Clock) Pending() []time.Duration {
	c.mu.Lock()
	defer c.mu.Unlock()
	out := make([]time.Duration, len(c.timers))
	for i, t := range c.timers {
		out[i] = t.when.Sub(c.now)
	}
	return out
}

// Advance moves the clock forward by d, firing every timer whose deadline is
// reached on the way (each at its own deadline). It returns the number fired.
func (c *Clock) Advance(d time.Duration) int {
	c.mu.Lock()
	target := c.now.Add(d)
	c.mu.Unlock()
	return c.AdvanceTo(target)
}

// AdvanceTo is Advance with an absolute target (no-op if it is in the past).
func (c *Clock) AdvanceTo(target time.Time) int {
	n := 0
	for {
		c.mu.Lock()
		if len(c.timers) == 0 || c.timers[0].when.After(target) {
			if target.After(c.now) {
				c.now = target
			}
			c.mu.Unlock()
			return n
		}
		t := c.timers[0]
		c.timers = c.timers[1:]
		t.state = 1
		if t.when.After(c.now) {
			c.now = t.when
		}
		now := c.now
		c.mu.Unlock()
		t.fire(now)
		n++
	}
}

// AdvanceToNext jumps to the earliest pending deadline and fires that timer
// (and any others due at the same instant). It reports the jump and whether a
// timer existed.
func (c *Clock) AdvanceToNext() (time.Duration, bool) {
	c.mu.Lock()
	if len(c.timers) == 0 {
		c.mu.Unlock()
		return 0, false
	}
	target := c.timers[0].when
	jump := target.Sub(c.now)
	c.mu.Unlock()
	if jump < 0 {
		jump = 0
	}
	c.AdvanceTo(target)
	return jump, true
}

// StopAll drops every pending timer without firing it and returns how many
// there were (used between independent executions that share a clock).
func (c *Clock) StopAll() int {
	c.mu.Lock()
	defer c.mu.Unlock()
	n := len(c.timers)
	for _, t := range c.timers {
		t.state = 2
	}
	c.timers = nil
	return n
}

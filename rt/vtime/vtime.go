// Package vtime is a drop-in replacement for the clock-reading and waiting
// parts of package time. Repository files are switched to it by an import
// rewrite rule in a profile (see tools/mkoverlay):
//
//	rewrite config/retry time=github.com/tikv/client-go/v2/verifrt/vtime
//
// The rewritten file keeps writing `time.Now()`, `time.After(d)`,
// `time.Duration` ... and gets the identifiers below instead.
//
// # Contract
//
//   - All types are aliases of the real ones (Duration, Time, Month, ...), all
//     constants and the pure functions (Unix, Date, Parse, ...) are passed
//     through, so values flow freely between rewritten and ordinary code.
//   - Everything that reads the clock or waits (Now, Since, Until, Sleep,
//     After, AfterFunc, NewTimer, Timer.Reset/Stop, NewTicker, Tick) asks the
//     installed Controller. With no controller installed (the default) every
//     function behaves exactly like package time.
//   - A Timer/Ticker remembers the controller it was created under; installing
//     or removing a controller later does not migrate it.
//   - The package is goroutine-safe. The controller is process wide; a harness
//     that runs several independent explorations in parallel installs one
//     controller that routes by calling goroutine (see harness/c20/env.go).
//
// # Controller API
//
//	vtime.SetController(c)   // c == nil: back to real time
//	vtime.GetController()
//
// Controller has three methods: Now, Sleep and StartTimer(d, fire). Every
// timer-like facility of this package is built on StartTimer: `fire(now)` is
// what the controller calls (at most once per StartTimer) when it decides that
// the virtual deadline is reached; it delivers to the timer channel without
// blocking or runs the AfterFunc function on the calling goroutine.
//
// Clock (clock.go) is a ready-made Controller: a manual clock with a list of
// pending timers, Advance/AdvanceToNext, and an OnStart hook for
// single-goroutine exploration where the explorer must decide, inside the
// call that arms a timer, whether the timer fires or something else happens
// first.
package vtime

import (
	"sync"
	"sync/atomic"
	"time"
)

// ---- re-exported types, constants and pure functions ----

type (
	Duration   = time.Duration
	Time       = time.Time
	Month      = time.Month
	Weekday    = time.Weekday
	Location   = time.Location
	ParseError = time.ParseError
)

const (
	Nanosecond  = time.Nanosecond
	Microsecond = time.Microsecond
	Millisecond = time.Millisecond
	Second      = time.Second
	Minute      = time.Minute
	Hour        = time.Hour
)

const (
	Layout      = time.Layout
	ANSIC       = time.ANSIC
	UnixDate    = time.UnixDate
	RubyDate    = time.RubyDate
	RFC822      = time.RFC822
	RFC822Z     = time.RFC822Z
	RFC850      = time.RFC850
	RFC1123     = time.RFC1123
	RFC1123Z    = time.RFC1123Z
	RFC3339     = time.RFC3339
	RFC3339Nano = time.RFC3339Nano
	Kitchen     = time.Kitchen
	Stamp       = time.Stamp
	StampMilli  = time.StampMilli
	StampMicro  = time.StampMicro
	StampNano   = time.StampNano
	DateTime    = time.DateTime
	DateOnly    = time.DateOnly
	TimeOnly    = time.TimeOnly
)

const (
	January   = time.January
	February  = time.February
	March     = time.March
	April     = time.April
	May       = time.May
	June      = time.June
	July      = time.July
	August    = time.August
	September = time.September
	October   = time.October
	November  = time.November
	December  = time.December
)

const (
	Sunday    = time.Sunday
	Monday    = time.Monday
	Tuesday   = time.Tuesday
	Wednesday = time.Wednesday
	Thursday  = time.Thursday
	Friday    = time.Friday
	Saturday  = time.Saturday
)

var (
	UTC   = time.UTC
	Local = time.Local
)

func Unix(sec, nsec int64) Time       { return time.Unix(sec, nsec) }
func UnixMilli(msec int64) Time       { return time.UnixMilli(msec) }
func UnixMicro(usec int64) Time       { return time.UnixMicro(usec) }
func Parse(l, v string) (Time, error) { return time.Parse(l, v) }
func ParseInLocation(l, v string, loc *Location) (Time, error) {
	return time.ParseInLocation(l, v, loc)
}
func ParseDuration(s string) (Duration, error)    { return time.ParseDuration(s) }
func FixedZone(name string, offset int) *Location { return time.FixedZone(name, offset) }
func LoadLocation(name string) (*Location, error) { return time.LoadLocation(name) }
func Date(y int, m Month, d, h, mi, s, ns int, l *Location) Time {
	return time.Date(y, m, d, h, mi, s, ns, l)
}

// ---- controller ----

// Stopper cancels a timer started with Controller.StartTimer. Stop reports
// whether the call prevented the timer from firing.
type Stopper interface {
	Stop() bool
}

// Controller is the seam between rewritten code and the explorer.
type Controller interface {
	// Now returns the current virtual time.
	Now() time.Time
	// Sleep returns when d of virtual time has passed for the caller.
	Sleep(d time.Duration)
	// StartTimer arms a one-shot timer. The controller calls fire(now) at most
	// once, when it decides the deadline is reached; fire never blocks.
	StartTimer(d time.Duration, fire func(now time.Time)) Stopper
}

type ctlBox struct{ c Controller }

var current atomic.Pointer[ctlBox]

// SetController installs c for the whole process; nil restores real time.
func SetController(c Controller) {
	if c == nil {
		current.Store(nil)
		return
	}
	current.Store(&ctlBox{c})
}

// GetController returns the installed controller or nil.
func GetController() Controller {
	if b := current.Load(); b != nil {
		return b.c
	}
	return nil
}

// ---- clock readers ----

func Now() Time {
	if c := GetController(); c != nil {
		return c.Now()
	}
	return time.Now()
}

func Since(t Time) Duration {
	if c := GetController(); c != nil {
		return c.Now().Sub(t)
	}
	return time.Since(t)
}

func Until(t Time) Duration {
	if c := GetController(); c != nil {
		return t.Sub(c.Now())
	}
	return time.Until(t)
}

// ---- waiting ----

func Sleep(d Duration) {
	if c := GetController(); c != nil {
		c.Sleep(d)
		return
	}
	time.Sleep(d)
}

// Timer mirrors time.Timer (field C, methods Stop and Reset).
type Timer struct {
	C <-chan Time

	mu   sync.Mutex
	real *time.Timer // set when created without a controller
	ctl  Controller
	ch   chan Time // nil for AfterFunc timers
	f    func()    // AfterFunc function
	h    Stopper
	gen  uint64 // invalidates fire callbacks of stopped/reset incarnations
}

func (t *Timer) arm(d Duration) {
	t.gen++
	gen := t.gen
	// StartTimer may call fire synchronously (single-goroutine explorers do);
	// fire takes t.mu, so arm is called with t.mu released around StartTimer.
	t.mu.Unlock()
	h := t.ctl.StartTimer(d, func(now time.Time) {
		t.mu.Lock()
		if t.gen != gen {
			t.mu.Unlock()
			return
		}
		t.h = nil
		ch, f := t.ch, t.f
		t.mu.Unlock()
		if f != nil {
			f()
			return
		}
		select {
		case ch <- now:
		default:
		}
	})
	t.mu.Lock()
	if t.gen == gen {
		t.h = h
	}
}

func NewTimer(d Duration) *Timer {
	c := GetController()
	if c == nil {
		rt := time.NewTimer(d)
		return &Timer{C: rt.C, real: rt}
	}
	ch := make(chan Time, 1)
	t := &Timer{C: ch, ch: ch, ctl: c}
	t.mu.Lock()
	t.arm(d)
	t.mu.Unlock()
	return t
}

func After(d Duration) <-chan Time { return NewTimer(d).C }

func AfterFunc(d Duration, f func()) *Timer {
	c := GetController()
	if c == nil {
		return &Timer{real: time.AfterFunc(d, f)}
	}
	t := &Timer{ctl: c, f: f}
	t.mu.Lock()
	t.arm(d)
	t.mu.Unlock()
	return t
}

// Stop prevents the timer from firing; like time.Timer.Stop (Go 1.23+
// semantics: no stale value is left in C after Stop returns).
func (t *Timer) Stop() bool {
	if t.real != nil {
		return t.real.Stop()
	}
	t.mu.Lock()
	defer t.mu.Unlock()
	return t.stopLocked()
}

func (t *Timer) stopLocked() bool {
	active := false
	if t.h != nil {
		active = t.h.Stop()
		t.h = nil
	}
	t.gen++
	if t.ch != nil {
		select {
		case <-t.ch:
		default:
		}
	}
	return active
}

// Reset re-arms the timer to fire after d; reports whether it was active.
func (t *Timer) Reset(d Duration) bool {
	if t.real != nil {
		return t.real.Reset(d)
	}
	t.mu.Lock()
	defer t.mu.Unlock()
	active := t.stopLocked()
	t.arm(d)
	return active
}

// Ticker mirrors time.Ticker. Under a controller it re-arms a one-shot timer
// after every tick; ticks that find C full are dropped like the real ones.
type Ticker struct {
	C <-chan Time

	mu      sync.Mutex
	real    *time.Ticker
	ctl     Controller
	ch      chan Time
	d       Duration
	h       Stopper
	gen     uint64
	stopped bool
}

func NewTicker(d Duration) *Ticker {
	if d <= 0 {
		panic("non-positive interval for NewTicker")
	}
	c := GetController()
	if c == nil {
		rt := time.NewTicker(d)
		return &Ticker{C: rt.C, real: rt}
	}
	ch := make(chan Time, 1)
	t := &Ticker{C: ch, ch: ch, ctl: c, d: d}
	t.mu.Lock()
	t.arm()
	t.mu.Unlock()
	return t
}

func (t *Ticker) arm() {
	t.gen++
	gen := t.gen
	d := t.d
	t.mu.Unlock()
	h := t.ctl.StartTimer(d, func(now time.Time) {
		t.mu.Lock()
		if t.gen != gen || t.stopped {
			t.mu.Unlock()
			return
		}
		select {
		case t.ch <- now:
		default:
		}
		t.arm()
		t.mu.Unlock()
	})
	t.mu.Lock()
	if t.gen == gen {
		t.h = h
	}
}

func (t *Ticker) Stop() {
	if t.real != nil {
		t.real.Stop()
		return
	}
	t.mu.Lock()
	defer t.mu.Unlock()
	t.stopped = true
	t.gen++
	if t.h != nil {
		t.h.Stop()
		t.h = nil
	}
}

func (t *Ticker) Reset(d Duration) {
	if d <= 0 {
		panic("non-positive interval for Ticker.Reset")
	}
	if t.real != nil {
		t.real.Reset(d)
		return
	}
	t.mu.Lock()
	defer t.mu.Unlock()
	if t.h != nil {
		t.h.Stop()
		t.h = nil
	}
	t.stopped = false
	t.d = d
	t.arm()
}

// Tick is NewTicker(d).C (nil for d <= 0), like time.Tick.
func Tick(d Duration) <-chan Time {
	if d <= 0 {
		return nil
	}
	return NewTicker(d).C
}

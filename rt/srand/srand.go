// Package srand replaces math/rand in the rewritten client-go packages: while
// a controlled execution is active every draw returns the maximum of its
// range (jitter fixed = max, DESIGN.md 3.1); otherwise it is math/rand.
package srand

import (
	"math/rand"

	"github.com/tikv/client-go/v2/verifrt/sched"
)

type (
	Rand   = rand.Rand
	Source = rand.Source
)

func New(src Source) *Rand         { return rand.New(src) }
func NewSource(seed int64) Source  { return rand.NewSource(seed) }
func Seed(seed int64)              { rand.Seed(seed) }
func Shuffle(n int, swap func(i, j int)) {
	if sched.Active() {
		return
	}
	rand.Shuffle(n, swap)
}

func Intn(n int) int {
	if sched.Active() {
		return n - 1
	}
	return rand.Intn(n)
}

func Int63n(n int64) int64 {
	if sched.Active() {
		return n - 1
	}
	return rand.Int63n(n)
}

func Int31n(n int32) int32 {
	if sched.Active() {
		return n - 1
	}
	return rand.Int31n(n)
}

func Uint32() uint32 {
	if sched.Active() {
		return 0
	}
	return rand.Uint32()
}

func Uint64() uint64 {
	if sched.Active() {
		return 0
	}
	return rand.Uint64()
}

func Int() int {
	if sched.Active() {
		return 0
	}
	return rand.Int()
}

func Int63() int64 {
	if sched.Active() {
		return 0
	}
	return rand.Int63()
}

func Float64() float64 {
	if sched.Active() {
		return 0
	}
	return rand.Float64()
}

func Perm(n int) []int {
	if sched.Active() {
		p := make([]int, n)
		for i := range p {
			p[i] = i
		}
		return p
	}
	return rand.Perm(n)
}

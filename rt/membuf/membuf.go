// Package membuf wraps the two real in-memory write buffers of
// internal/unionstore (ART backed MemDB, RBT backed MemDB) behind one driver
// interface and translates between them and the omap reference model. Shared
// by the C08 and C07 harnesses.
package membuf

import (
	"bytes"
	"errors"
	"fmt"
	"strconv"

	tikverr "github.com/tikv/client-go/v2/error"
	"github.com/tikv/client-go/v2/internal/unionstore"
	"github.com/tikv/client-go/v2/kv"
	"github.com/tikv/client-go/v2/verifrt/models/omap"
)

// FlagIter is the iterator with flags and handles that both trees offer.
type FlagIter interface {
	Valid() bool
	Key() []byte
	Value() []byte
	Next() error
	Flags() kv.KeyFlags
	HasValue() bool
	Handle() unionstore.MemKeyHandle
	Close()
}

// Buf is the MemBuffer interface plus the methods both trees add to it.
type Buf interface {
	unionstore.MemBuffer
	SelectValueHistory(key []byte, predicate func(value []byte) bool) ([]byte, error)
	GetKeyByHandle(unionstore.MemKeyHandle) []byte
	GetValueByHandle(unionstore.MemKeyHandle) ([]byte, bool)
}

// Impl is one real buffer under test together with the checkpoints the driver holds for it.
type Impl struct {
	Name                 string
	DB                   Buf
	Cps                  []*unionstore.MemDBCheckpoint
	IterWithFlags        func(lower, upper []byte) FlagIter
	IterReverseWithFlags func(upper []byte) FlagIter
	// LoudIterators: iterators of this implementation check a write sequence number (ART).
	LoudIterators bool
}

// NewART returns a fresh radix-tree buffer (the repository's default MemDB).
func NewART() *Impl {
	db := unionstore.NewMemDB()
	return &Impl{Name: "art", DB: db, LoudIterators: true,
		IterWithFlags:        func(l, u []byte) FlagIter { return db.ART.IterWithFlags(l, u) },
		IterReverseWithFlags: func(u []byte) FlagIter { return db.ART.IterReverseWithFlags(u) },
	}
}

// NewRBT returns a fresh red-black-tree buffer.
func NewRBT() *Impl {
	db := unionstore.VerifC08NewRbtMemDB()
	return &Impl{Name: "rbt", DB: db,
		IterWithFlags:        func(l, u []byte) FlagIter { return db.RBT.IterWithFlags(l, u) },
		IterReverseWithFlags: func(u []byte) FlagIter { return db.RBT.IterReverseWithFlags(u) },
	}
}

// New returns the named implementation.
func New(name string) *Impl {
	if name == "rbt" {
		return NewRBT()
	}
	return NewART()
}

var realOps = map[omap.FlagOp]kv.FlagsOp{
	omap.SetPresumeKNE: kv.SetPresumeKeyNotExists, omap.DelPresumeKNE: kv.DelPresumeKeyNotExists,
	omap.SetLocked: kv.SetKeyLocked, omap.DelLocked: kv.DelKeyLocked,
	omap.SetNeedLocked: kv.SetNeedLocked, omap.DelNeedLocked: kv.DelNeedLocked,
	omap.SetLockedValueExists: kv.SetKeyLockedValueExists, omap.SetLockedValueNotExists: kv.SetKeyLockedValueNotExists,
	omap.DelNeedCheckExists: kv.DelNeedCheckExists, omap.SetPrewriteOnly: kv.SetPrewriteOnly,
	omap.SetIgnoredIn2PC: kv.SetIgnoredIn2PC, omap.SetReadable: kv.SetReadable, omap.SetNewlyInserted: kv.SetNewlyInserted,
	omap.SetAssertExist: kv.SetAssertExist, omap.SetAssertNotExist: kv.SetAssertNotExist,
	omap.SetAssertUnknown: kv.SetAssertUnknown, omap.SetAssertNone: kv.SetAssertNone,
	omap.SetNeedConstraintCheck: kv.SetNeedConstraintCheckInPrewrite, omap.DelNeedConstraintCheck: kv.DelNeedConstraintCheckInPrewrite,
	omap.SetPrevPresumeKNE: kv.SetPreviousPresumeKNE, omap.SetLockedShare: kv.SetKeyLockedInShareMode,
	omap.SetLockedExclusive: kv.SetKeyLockedInExclusiveMode,
}

// RealOps maps model flag operations to the repository's.
func RealOps(ops []omap.FlagOp) []kv.FlagsOp {
	out := make([]kv.FlagsOp, len(ops))
	for i, o := range ops {
		out[i] = realOps[o]
	}
	return out
}

// FlagOpByName resolves the documented name of a flag operation.
func FlagOpByName(name string) (omap.FlagOp, bool) {
	for o := omap.FlagOp(0); o < omap.NumFlagOps; o++ {
		if o.String() == name {
			return o, true
		}
	}
	return 0, false
}

// Observable flag bits shared by model and implementation (read through the
// exported accessor methods of kv.KeyFlags only).
const (
	ObsPresume uint32 = 1 << iota
	ObsLocked
	ObsNeedLocked
	ObsLockedValExist
	ObsNeedCheckExists
	ObsPrewriteOnly
	ObsIgnoredIn2PC
	ObsReadable
	ObsNewlyInserted
	ObsAssertExist
	ObsAssertNotExist
	ObsNeedConstraintCheck
	ObsLockedShare
	ObsAnyPersistent
)

func b(c bool, bit uint32) uint32 {
	if c {
		return bit
	}
	return 0
}

// ProjectReal reads every accessor of the real flags.
func ProjectReal(f kv.KeyFlags) uint32 {
	return b(f.HasPresumeKeyNotExists(), ObsPresume) | b(f.HasLocked(), ObsLocked) | b(f.HasNeedLocked(), ObsNeedLocked) |
		b(f.HasLockedValueExists(), ObsLockedValExist) | b(f.HasNeedCheckExists(), ObsNeedCheckExists) |
		b(f.HasPrewriteOnly(), ObsPrewriteOnly) | b(f.HasIgnoredIn2PC(), ObsIgnoredIn2PC) | b(f.HasReadable(), ObsReadable) |
		b(f.HasNewlyInserted(), ObsNewlyInserted) | b(f.HasAssertExist() || f.HasAssertUnknown(), ObsAssertExist) |
		b(f.HasAssertNotExist() || f.HasAssertUnknown(), ObsAssertNotExist) |
		b(f.HasNeedConstraintCheckInPrewrite(), ObsNeedConstraintCheck) | b(f.HasLockedInShareMode(), ObsLockedShare) |
		b(f.AndPersistent() != 0, ObsAnyPersistent)
}

// ProjectModel gives the same bits for model flags.
func ProjectModel(f omap.Flags) uint32 {
	return b(f&(omap.FPresumeKNE|omap.FPrevPresumeKNE) != 0, ObsPresume) | b(f&omap.FLocked != 0, ObsLocked) |
		b(f&omap.FNeedLocked != 0, ObsNeedLocked) | b(f&omap.FLockedValExist != 0, ObsLockedValExist) |
		b(f&omap.FNeedCheckExists != 0, ObsNeedCheckExists) | b(f&omap.FPrewriteOnly != 0, ObsPrewriteOnly) |
		b(f&omap.FIgnoredIn2PC != 0, ObsIgnoredIn2PC) | b(f&omap.FReadable != 0, ObsReadable) |
		b(f&omap.FNewlyInserted != 0, ObsNewlyInserted) | b(f&omap.FAssertExist != 0, ObsAssertExist) |
		b(f&omap.FAssertNotExist != 0, ObsAssertNotExist) | b(f&omap.FNeedConstraintCheck != 0, ObsNeedConstraintCheck) |
		b(f&omap.FLockedShare != 0, ObsLockedShare) | b(f&omap.Persistent != 0, ObsAnyPersistent)
}

// Classify maps an error of a write to the model's class (-1: unexpected error).
func Classify(err error) omap.ErrClass {
	if err == nil {
		return omap.OK
	}
	var k *tikverr.ErrKeyTooLarge
	var e *tikverr.ErrEntryTooLarge
	var t *tikverr.ErrTxnTooLarge
	switch {
	case errors.Is(err, tikverr.ErrCannotSetNilValue):
		return omap.ErrCannotSetEmpty
	case errors.As(err, &k):
		return omap.ErrKeyTooLarge
	case errors.As(err, &e):
		return omap.ErrEntryTooLarge
	case errors.As(err, &t):
		return omap.ErrTxnTooLarge
	}
	return -1
}

// Guard runs f and reports a panic instead of propagating it.
func Guard(f func()) (msg string, panicked bool) {
	defer func() {
		if p := recover(); p != nil {
			msg, panicked = fmt.Sprint(p), true
			if len(msg) > 200 {
				msg = msg[:200]
			}
		}
	}()
	f()
	return
}

// Value expands a value descriptor: "#N" or "#N:c" is N bytes of a
// deterministic pattern (c distinguishes equal-length values), anything else is literal.
func Value(desc string) []byte {
	if len(desc) < 2 || desc[0] != '#' {
		return []byte(desc)
	}
	rest := desc[1:]
	salt := byte(0)
	for i := 0; i < len(rest); i++ {
		if rest[i] == ':' {
			if i+1 < len(rest) {
				salt = rest[i+1]
			}
			rest = rest[:i]
			break
		}
	}
	n, err := strconv.Atoi(rest)
	if err != nil || n < 0 {
		return []byte(desc)
	}
	out := make([]byte, n)
	for i := range out {
		out[i] = byte(i*7+n) ^ salt | 1 // never 0 so that prefixes differ from zero memory
	}
	return out
}

// Op is one driver operation on a buffer (JSON form = replay form).
type Op struct {
	Kind string   `json:"op"`            // Set SetWithFlags Delete DeleteWithFlags UpdateFlags Staging Release Cleanup Release0 Cleanup0 CleanupStale Checkpoint Revert
	K    int      `json:"k"`             // index into the key pool (write ops)
	Key  string   `json:"key,omitempty"` // the key, quoted and shortened, for humans only
	V    string   `json:"v,omitempty"`   // value descriptor (Set / SetWithFlags)
	F    []string `json:"f,omitempty"`   // flag operation names
	Cp   int      `json:"cp"`            // index of the live checkpoint (Revert)
}

func (o Op) String() string {
	switch o.Kind {
	case "Set":
		return fmt.Sprintf("Set(%s,%s)", o.Key, o.V)
	case "SetWithFlags":
		return fmt.Sprintf("SetWithFlags(%s,%s,%v)", o.Key, o.V, o.F)
	case "Delete":
		return fmt.Sprintf("Delete(%s)", o.Key)
	case "DeleteWithFlags":
		return fmt.Sprintf("DeleteWithFlags(%s,%v)", o.Key, o.F)
	case "UpdateFlags":
		return fmt.Sprintf("UpdateFlags(%s,%v)", o.Key, o.F)
	case "Revert":
		return fmt.Sprintf("RevertToCheckpoint(#%d)", o.Cp)
	}
	return o.Kind
}

// IsWrite reports whether the op is a content write (Set family).
func (o Op) IsWrite() bool {
	switch o.Kind {
	case "Set", "SetWithFlags", "Delete", "DeleteWithFlags", "UpdateFlags":
		return true
	}
	return false
}

// QuoteKey renders a key for humans.
func QuoteKey(k []byte) string {
	if len(k) > 40 {
		return fmt.Sprintf("%q..(%d bytes)..%q", k[:12], len(k), k[len(k)-4:])
	}
	return strconv.Quote(string(k))
}

func (o Op) flagOps() []omap.FlagOp {
	out := make([]omap.FlagOp, 0, len(o.F))
	for _, n := range o.F {
		if f, ok := FlagOpByName(n); ok {
			out = append(out, f)
		}
	}
	return out
}

// ApplyModel applies op to the model and returns the expected answer
// ("ok", an error class, or the staging handle).
func ApplyModel(m *omap.Model, o Op, keys [][]byte) string {
	switch o.Kind {
	case "Set", "SetWithFlags":
		return m.Set(keys[o.K], Value(o.V), o.flagOps()...).String()
	case "Delete", "DeleteWithFlags":
		return m.Delete(keys[o.K], o.flagOps()...).String()
	case "UpdateFlags":
		m.UpdateFlags(keys[o.K], o.flagOps()...)
	case "Staging":
		return "h" + strconv.Itoa(m.Staging())
	case "Release":
		m.Release(m.Depth())
	case "Cleanup":
		m.Cleanup(m.Depth())
	case "Release0":
		m.Release(0)
	case "Cleanup0":
		m.Cleanup(0)
	case "CleanupStale":
		m.Cleanup(m.Depth() + 1)
	case "Checkpoint":
		m.Checkpoint()
	case "Revert":
		m.RevertToCheckpoint(o.Cp)
	default:
		panic("membuf: unknown op " + o.Kind)
	}
	return "ok"
}

// ApplyReal applies op to a real buffer. depth is the number of open staging
// levels before the op and liveCps the number of live checkpoints after it
// (both taken from the model). A panic is returned as answer "panic: ...".
func ApplyReal(im *Impl, o Op, keys [][]byte, depth, liveCps int) (ans string) {
	msg, panicked := Guard(func() {
		cls := func(err error) string {
			c := Classify(err)
			if c < 0 {
				return "unexpected error: " + err.Error()
			}
			return c.String()
		}
		ans = "ok"
		switch o.Kind {
		case "Set":
			ans = cls(im.DB.Set(keys[o.K], Value(o.V)))
		case "SetWithFlags":
			ans = cls(im.DB.SetWithFlags(keys[o.K], Value(o.V), RealOps(o.flagOps())...))
		case "Delete":
			ans = cls(im.DB.Delete(keys[o.K]))
		case "DeleteWithFlags":
			ans = cls(im.DB.DeleteWithFlags(keys[o.K], RealOps(o.flagOps())...))
		case "UpdateFlags":
			im.DB.UpdateFlags(keys[o.K], RealOps(o.flagOps())...)
		case "Staging":
			ans = "h" + strconv.Itoa(im.DB.Staging())
		case "Release":
			im.DB.Release(depth)
		case "Cleanup":
			im.DB.Cleanup(depth)
		case "Release0":
			im.DB.Release(0)
		case "Cleanup0":
			im.DB.Cleanup(0)
		case "CleanupStale":
			im.DB.Cleanup(depth + 1)
		case "Checkpoint":
			im.Cps = append(im.Cps, im.DB.Checkpoint())
		case "Revert":
			im.DB.RevertToCheckpoint(im.Cps[o.Cp])
		default:
			panic("membuf: unknown op " + o.Kind)
		}
	})
	if panicked {
		return "panic: " + msg
	}
	// checkpoints die exactly when the model says so (they are positions of the undo log)
	if len(im.Cps) > liveCps {
		im.Cps = im.Cps[:liveCps]
	}
	return ans
}

// KV is one observed iterator element.
type KV struct {
	Key, Val []byte
}

// Drain reads an iterator to its end (at most limit elements), copying keys and values.
func Drain(it unionstore.Iterator, limit int) (out []KV, err error) {
	for n := 0; it.Valid(); n++ {
		if n >= limit {
			return out, fmt.Errorf("iterator yields more than %d elements", limit)
		}
		out = append(out, KV{append([]byte{}, it.Key()...), append([]byte{}, it.Value()...)})
		if e := it.Next(); e != nil {
			return out, e
		}
	}
	return out, nil
}

// SameKVs compares an observed sequence with the model's (values only).
func SameKVs(got []KV, want []omap.KV) bool {
	if len(got) != len(want) {
		return false
	}
	for i := range got {
		if string(got[i].Key) != want[i].Key || !bytes.Equal(got[i].Val, want[i].Val) {
			return false
		}
	}
	return true
}

// ShowKVs renders a sequence for messages.
func ShowKVs(kvs []KV) string {
	s := "["
	for i, e := range kvs {
		if i > 0 {
			s += " "
		}
		if i >= 8 {
			s += fmt.Sprintf("...%d more", len(kvs)-i)
			break
		}
		s += QuoteKey(e.Key) + "=" + showVal(e.Val)
	}
	return s + "]"
}

// ShowModel renders a model sequence for messages.
func ShowModel(kvs []omap.KV) string {
	out := make([]KV, len(kvs))
	for i, e := range kvs {
		out[i] = KV{[]byte(e.Key), e.Val}
	}
	return ShowKVs(out)
}

func showVal(v []byte) string {
	if len(v) > 12 {
		return fmt.Sprintf("<%d bytes>", len(v))
	}
	return strconv.Quote(string(v))
}

// ShowVal renders a value for messages.
func ShowVal(v []byte, ok bool) string {
	if !ok {
		return "<none>"
	}
	return showVal(v)
}

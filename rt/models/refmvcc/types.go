// Package refmvcc is a reference model of TiKV's Percolator-style MVCC
// transaction commands (DESIGN.md appendix B). It is written from TiKV's
// documented semantics and the text of property C12, not from the mock store:
// plain maps and slices, per key one lock slot and a list of write records.
//
// It serves two purposes:
//   - oracle of the C12 harness (every command returns a comparable result:
//     error class plus the payload fields a client acts on);
//   - "MVCC truth" for the transaction-level audits (Read, Dump, State).
//
// Timestamps are TSO timestamps: physical milliseconds << 18 | logical.
package refmvcc

import (
	"fmt"
	"math"
	"sort"
	"strings"
)

// MaxTS is the "read the latest version" timestamp.
const MaxTS = uint64(math.MaxUint64)

// Physical extracts the physical (millisecond) part of a TSO timestamp.
func Physical(ts uint64) uint64 { return ts >> 18 }

// Op is a mutation / lock type.
type Op int

const (
	OpPut Op = iota
	OpDel
	OpLock           // lock-only mutation (SELECT ... FOR UPDATE of an optimistic txn, index locks)
	OpInsert         // put that requires the key not to exist
	OpCheckNotExists // existence check only, writes nothing
	OpPessimistic    // lock type only: a pessimistic lock
)

func (o Op) String() string {
	return [...]string{"Put", "Del", "Lock", "Insert", "CheckNotExists", "Pessimistic"}[o]
}

// WriteType is the type of a write record.
type WriteType int

const (
	WPut WriteType = iota
	WDelete
	WLock
	WRollback
)

func (t WriteType) String() string { return [...]string{"Put", "Delete", "Lock", "Rollback"}[t] }

// Lock is the content of a key's lock slot.
type Lock struct {
	Start     uint64
	Primary   string
	Op        Op // OpPut, OpDel, OpLock or OpPessimistic
	TTL       uint64
	ForUpdate uint64
	MinCommit uint64
	Value     string
}

// Write is one write record. A rollback marker is {Commit: start, Start: start, Type: WRollback}.
type Write struct {
	Commit uint64
	Start  uint64
	Type   WriteType
	Value  string
}

// Class is the class of an answer; only classes (and the payload below) are compared.
type Class int

const (
	OK Class = iota
	Locked
	Deadlock // only ever an accepted alternative of Locked for pessimistic lock requests
	WriteConflict
	AlreadyExists
	AlreadyCommitted
	AlreadyRolledBack
	PessimisticLockNotFound // prewrite with the pessimistic check finds no lock of the transaction
	LockTypeMismatch        // pessimistic lock request over the transaction's own prewrite lock: refused
	TxnLockNotFound         // commit finds neither the lock nor a commit record
	CommitTsExpired
	TxnNotFound // status check / heartbeat: nothing known about the transaction
	GCBlocked   // GC refuses: lock at or below the safe point
	Abort       // any other refusal
)

func (c Class) String() string {
	return [...]string{"OK", "Locked", "Deadlock", "WriteConflict", "AlreadyExists", "AlreadyCommitted", "AlreadyRolledBack",
		"PessimisticLockNotFound", "LockTypeMismatch", "TxnLockNotFound", "CommitTsExpired", "TxnNotFound", "GCBlocked", "Abort"}[c]
}

// Err is a comparable answer: class plus the fields a client acts on.
// Fields that do not belong to the class are zero.
type Err struct {
	Class Class
	Key   string // key the answer is about (Locked, WriteConflict, AlreadyExists, CommitTsExpired), "" if n/a
	// Locked:
	LockStart   uint64
	LockPrimary string
	LockTTL     uint64
	// WriteConflict: commit ts of the conflicting record. AlreadyCommitted: commit ts.
	CommitTS uint64
	// CommitTsExpired:
	MinCommitTS uint64
	// Alt is a bit set (1 << Class) of further classes the property text does
	// not exclude for this situation (payload then unchecked). See the
	// per-command comments.
	Alt uint32
	// Undefined, if non-empty, names a situation outside the property text /
	// its preconditions; the answer and the resulting state are then not to be compared.
	Undefined string
}

func (e Err) IsOK() bool { return e.Class == OK }

func (e Err) String() string {
	if e.Undefined != "" {
		return "undefined(" + e.Undefined + ")"
	}
	s := e.Class.String()
	switch e.Class {
	case Locked:
		s += fmt.Sprintf("{key=%s start=%d primary=%s ttl=%d}", e.Key, e.LockStart, e.LockPrimary, e.LockTTL)
	case WriteConflict:
		s += fmt.Sprintf("{key=%s conflictCommit=%d}", e.Key, e.CommitTS)
	case AlreadyCommitted:
		s += fmt.Sprintf("{commit=%d}", e.CommitTS)
	case CommitTsExpired:
		s += fmt.Sprintf("{key=%s minCommit=%d}", e.Key, e.MinCommitTS)
	case AlreadyExists:
		s += fmt.Sprintf("{key=%s}", e.Key)
	}
	for c := OK; c <= Abort; c++ {
		if e.Alt&(1<<uint(c)) != 0 {
			s += "|" + c.String()
		}
	}
	return s
}

// Accepts reports whether an answer of class c is acceptable where e is expected
// (payload to be compared only if c == e.Class).
func (e Err) Accepts(c Class) bool { return c == e.Class || e.Alt&(1<<uint(c)) != 0 }

// KV is one element of a read result: a value or the error of that key.
type KV struct {
	Key   string
	Value string
	Err   Err
}

func (p KV) String() string {
	if !p.Err.IsOK() {
		return p.Key + ":" + p.Err.String()
	}
	return p.Key + "=" + p.Value
}

// LockInfo is one element of a ScanLock answer.
type LockInfo struct {
	Key     string
	Primary string
	Start   uint64
}

// keyState is everything stored for one key.
type keyState struct {
	lock   *Lock
	writes []Write // newest (largest Commit) first
	// done is ghost state for the driver's precondition "no lock request of a
	// transaction reaches a key after that transaction was committed or rolled
	// back on it": start timestamps that were committed / rolled back here,
	// kept even after GC dropped the record.
	done map[uint64]bool
}

// Options select behaviour at points the property text leaves open; the zero
// value is TiKV's behaviour.
type Options struct {
	// ForceLockKeepsRequestForUpdateTS: a pessimistic lock acquired in
	// force-lock mode over a newer commit stores the request's for-update-ts
	// (TiKV stores max(for-update-ts, conflicting commit ts)).
	ForceLockKeepsRequestForUpdateTS bool
}

// Store is the reference store.
type Store struct {
	Opt  Options
	keys map[string]*keyState
}

// New returns an empty store.
func New() *Store { return &Store{keys: map[string]*keyState{}} }

func (s *Store) ks(k string) *keyState {
	e := s.keys[k]
	if e == nil {
		e = &keyState{}
		s.keys[k] = e
	}
	return e
}

func (s *Store) peek(k string) *keyState {
	if e := s.keys[k]; e != nil {
		return e
	}
	return &keyState{}
}

// Clone returns a deep copy.
func (s *Store) Clone() *Store {
	c := &Store{Opt: s.Opt, keys: make(map[string]*keyState, len(s.keys))}
	for k, e := range s.keys {
		n := &keyState{}
		if e.lock != nil {
			l := *e.lock
			n.lock = &l
		}
		n.writes = append([]Write(nil), e.writes...)
		if len(e.done) > 0 {
			n.done = make(map[uint64]bool, len(e.done))
			for t := range e.done {
				n.done[t] = true
			}
		}
		c.keys[k] = n
	}
	return c
}

// Keys returns the keys that hold a lock or a record, sorted.
func (s *Store) Keys() []string {
	var ks []string
	for k, e := range s.keys {
		if e.lock != nil || len(e.writes) > 0 {
			ks = append(ks, k)
		}
	}
	sort.Strings(ks)
	return ks
}

func (s *Store) keysIn(start, end string) []string {
	var ks []string
	for _, k := range s.Keys() {
		if k >= start && (end == "" || k < end) {
			ks = append(ks, k)
		}
	}
	return ks
}

// LockOf returns a copy of the lock on k, or nil.
func (s *Store) LockOf(k string) *Lock {
	if l := s.peek(k).lock; l != nil {
		c := *l
		return &c
	}
	return nil
}

// Writes returns a copy of the write records of k, newest first.
func (s *Store) Writes(k string) []Write { return append([]Write(nil), s.peek(k).writes...) }

// Finished reports whether transaction start was ever committed or rolled back on k.
func (s *Store) Finished(k string, start uint64) bool { return s.peek(k).done[start] }

func (e *keyState) markDone(start uint64) {
	if e.done == nil {
		e.done = map[uint64]bool{}
	}
	e.done[start] = true
}

// Dump is the canonical rendering of the stored data (locks and records), one
// key per line, keys sorted, records newest first. Two stores with the same
// Dump answer every command identically.
func (s *Store) Dump() string {
	var b strings.Builder
	for _, k := range s.Keys() {
		e := s.keys[k]
		b.WriteString(k)
		b.WriteString(":")
		if l := e.lock; l != nil {
			fmt.Fprintf(&b, " L{%d %s %s ttl=%d fu=%d mc=%d v=%q}", l.Start, l.Op, l.Primary, l.TTL, l.ForUpdate, l.MinCommit, l.Value)
		}
		for _, w := range e.writes {
			fmt.Fprintf(&b, " W{%d<-%d %s %q}", w.Commit, w.Start, w.Type, w.Value)
		}
		b.WriteString("\n")
	}
	return b.String()
}

// State is Dump plus the ghost "finished" sets; it is the deduplication key of
// an exploration whose driver respects the lock-request precondition.
func (s *Store) State() string {
	var b strings.Builder
	b.WriteString(s.Dump())
	var ks []string
	for k, e := range s.keys {
		if len(e.done) > 0 {
			ks = append(ks, k)
		}
	}
	sort.Strings(ks)
	for _, k := range ks {
		var ts []uint64
		for t := range s.keys[k].done {
			ts = append(ts, t)
		}
		sort.Slice(ts, func(i, j int) bool { return ts[i] < ts[j] })
		fmt.Fprintf(&b, "done %s %v\n", k, ts)
	}
	return b.String()
}

// CheckInvariants verifies the structural invariants of appendix B and returns
// a description of the first violated one ("" if all hold): at most one lock
// per key (by construction), records sorted by pairwise distinct commit ts,
// per (key, start) never both a data record and a rollback marker, never two
// records of one transaction.
func (s *Store) CheckInvariants() string {
	for _, k := range s.Keys() {
		e := s.keys[k]
		seen := map[uint64]WriteType{}
		for i, w := range e.writes {
			if i > 0 && e.writes[i-1].Commit <= w.Commit {
				return fmt.Sprintf("key %s: records not sorted by distinct commit ts (%d then %d)", k, e.writes[i-1].Commit, w.Commit)
			}
			if w.Type == WRollback && w.Commit != w.Start {
				return fmt.Sprintf("key %s: rollback marker with commit %d != start %d", k, w.Commit, w.Start)
			}
			if w.Type != WRollback && w.Commit <= w.Start {
				return fmt.Sprintf("key %s: record with commit %d <= start %d", k, w.Commit, w.Start)
			}
			if t, dup := seen[w.Start]; dup {
				if (t == WRollback) != (w.Type == WRollback) {
					return fmt.Sprintf("key %s: transaction %d both committed and rolled back", k, w.Start)
				}
				return fmt.Sprintf("key %s: two records of transaction %d", k, w.Start)
			}
			seen[w.Start] = w.Type
		}
		if l := e.lock; l != nil {
			if _, fin := seen[l.Start]; fin {
				return fmt.Sprintf("key %s: lock of transaction %d next to its own commit/rollback record", k, l.Start)
			}
		}
	}
	return ""
}

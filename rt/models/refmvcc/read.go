package refmvcc

// Read is the "MVCC truth": the newest committed version of k at or below ts,
// ignoring locks. Rollback and Lock records carry no data and are skipped.
// found is false for a missing or deleted key.
func (s *Store) Read(k string, ts uint64) (value string, commitTS uint64, found bool) {
	for _, w := range s.peek(k).writes {
		if w.Commit > ts || w.Type == WRollback || w.Type == WLock {
			continue
		}
		if w.Type == WPut {
			return w.Value, w.Commit, true
		}
		return "", 0, false // WDelete
	}
	return "", 0, false
}

func lockedErr(k string, l *Lock) Err {
	return Err{Class: Locked, Key: k, LockStart: l.Start, LockPrimary: l.Primary, LockTTL: l.TTL}
}

// blocking reports whether the lock on k blocks a snapshot read at ts.
// Only Put and Del locks of transactions that started at or before ts block;
// Lock-type and pessimistic locks never do. A reader that already knows the
// transaction is undecided-but-pushed lists it in resolved. Reading "the
// latest" (ts = MaxTS) of the lock's own primary key ignores the lock.
func blocking(k string, l *Lock, ts uint64, resolved []uint64) bool {
	if l == nil || l.Start > ts || (l.Op != OpPut && l.Op != OpDel) {
		return false
	}
	if ts == MaxTS && l.Primary == k {
		return false
	}
	for _, r := range resolved {
		if r == l.Start {
			return false
		}
	}
	return true
}

// Get is a snapshot-isolation point read.
func (s *Store) Get(k string, ts uint64, resolved []uint64) KV {
	if l := s.peek(k).lock; blocking(k, l, ts, resolved) {
		return KV{Key: k, Err: lockedErr(k, l)}
	}
	v, _, _ := s.Read(k, ts)
	return KV{Key: k, Value: v}
}

// BatchGet returns, in request order, the keys that have a value or an error.
func (s *Store) BatchGet(keys []string, ts uint64, resolved []uint64) []KV {
	var out []KV
	for _, k := range keys {
		p := s.Get(k, ts, resolved)
		if p.Err.IsOK() && p.Value == "" {
			continue
		}
		out = append(out, p)
	}
	return out
}

// Scan equals the per-key Gets over [start, end) in ascending key order (keys
// without a visible value are omitted, a blocked key contributes its error),
// cut after limit elements. end == "" means unbounded.
func (s *Store) Scan(start, end string, limit int, ts uint64, resolved []uint64) []KV {
	var out []KV
	for _, k := range s.keysIn(start, end) {
		if len(out) >= limit {
			break
		}
		p := s.Get(k, ts, resolved)
		if p.Err.IsOK() && p.Value == "" {
			continue
		}
		out = append(out, p)
	}
	return out
}

// ReverseScan is the mirror image of Scan over the same range [start, end).
func (s *Store) ReverseScan(start, end string, limit int, ts uint64, resolved []uint64) []KV {
	ks := s.keysIn(start, end)
	var out []KV
	for i := len(ks) - 1; i >= 0 && len(out) < limit; i-- {
		p := s.Get(ks[i], ts, resolved)
		if p.Err.IsOK() && p.Value == "" {
			continue
		}
		out = append(out, p)
	}
	return out
}

// ScanLock lists the locks with start <= maxTS in [start, end), ascending.
func (s *Store) ScanLock(start, end string, maxTS uint64) []LockInfo {
	var out []LockInfo
	for _, k := range s.keysIn(start, end) {
		if l := s.keys[k].lock; l != nil && l.Start <= maxTS {
			out = append(out, LockInfo{Key: k, Primary: l.Primary, Start: l.Start})
		}
	}
	return out
}

package refmvcc

import "sort"

// ---------- helpers ----------

func (e *keyState) newest() *Write {
	if len(e.writes) == 0 {
		return nil
	}
	return &e.writes[0]
}

// recordOf returns the commit record or rollback marker of transaction start.
func (e *keyState) recordOf(start uint64) *Write {
	for i := range e.writes {
		if e.writes[i].Start == start {
			return &e.writes[i]
		}
	}
	return nil
}

func (e *keyState) insert(w Write) {
	i := sort.Search(len(e.writes), func(i int) bool { return e.writes[i].Commit <= w.Commit })
	if i < len(e.writes) && e.writes[i].Commit == w.Commit {
		e.writes[i] = w // same version: overwritten (cannot happen with distinct timestamps)
		return
	}
	e.writes = append(e.writes, Write{})
	copy(e.writes[i+1:], e.writes[i:])
	e.writes[i] = w
}

func (e *keyState) putMarker(start uint64) {
	e.insert(Write{Commit: start, Start: start, Type: WRollback})
	e.markDone(start)
}

// commitLock turns the lock into its write record. A leftover pessimistic lock
// is committed as a Lock record: no data changes.
func (e *keyState) commitLock(commit uint64) {
	l := e.lock
	w := Write{Commit: commit, Start: l.Start}
	switch l.Op {
	case OpPut:
		w.Type, w.Value = WPut, l.Value
	case OpDel:
		w.Type = WDelete
	default: // OpLock, OpPessimistic
		w.Type = WLock
	}
	e.lock = nil
	e.insert(w)
	e.markDone(l.Start)
}

func (e *keyState) rollbackLock() {
	start := e.lock.Start
	e.lock = nil
	e.putMarker(start)
}

// anyRefusal: every class except OK.
const anyRefusal = uint32(1<<(uint(Abort)+1)-1) &^ 1

func altOf(cs ...Class) uint32 {
	var m uint32
	for _, c := range cs {
		m |= 1 << uint(c)
	}
	return m
}

// ---------- prewrite ----------

// Action is the per-mutation pessimistic action of a prewrite.
type Action int

const (
	SkipPessimisticCheck Action = iota
	DoPessimisticCheck
	DoConstraintCheck
)

// Mutation is one prewrite mutation.
type Mutation struct {
	Op     Op // OpPut, OpDel, OpLock, OpInsert, OpCheckNotExists
	Key    string
	Value  string
	Action Action
}

// PrewriteReq is a prewrite request. ForUpdate != 0 marks a pessimistic transaction.
type PrewriteReq struct {
	Start     uint64
	Primary   string
	TTL       uint64
	MinCommit uint64
	ForUpdate uint64
	Muts      []Mutation
}

// Prewrite answers every mutation against the state before the request and
// applies the request only if every mutation succeeded (atomic).
func (s *Store) Prewrite(r PrewriteReq) []Err {
	out := make([]Err, len(r.Muts))
	type plan struct {
		k string
		l Lock
	}
	var plans []plan
	fail := false
	for i, m := range r.Muts {
		e := s.peek(m.Key)
		l := e.lock
		_, _, existsAtStart := s.Read(m.Key, r.Start)
		needNotExist := m.Op == OpInsert || m.Op == OpCheckNotExists
		switch {
		case l != nil && l.Start != r.Start:
			// Foreign lock. TiKV checks the lock first; a prewrite that carries the
			// pessimistic check is told to give up unconditionally (ttl 0 / lock not found).
			er := lockedErr(m.Key, l)
			if m.Action == DoPessimisticCheck {
				er.LockTTL = 0
				er.Alt |= altOf(PessimisticLockNotFound)
			}
			if needNotExist && r.ForUpdate == 0 {
				// Order of the existence check and the lock check is not fixed by the text.
				if existsAtStart {
					er.Alt |= altOf(AlreadyExists)
				} else if m.Op == OpCheckNotExists && !blocking(m.Key, l, r.Start, nil) {
					er.Alt |= altOf(OK) // a pure existence check may ignore a lock that does not block its read
				}
			}
			out[i] = er
		case l != nil && l.Op != OpPessimistic:
			// Own prewrite lock: repeat, same answer, nothing changes.
		case l != nil:
			// Own pessimistic lock: converted without a write-conflict re-check.
			if r.ForUpdate == 0 {
				out[i] = Err{Undefined: "optimistic prewrite over the transaction's own pessimistic lock"}
				break
			}
			if m.Op == OpCheckNotExists {
				break
			}
			nl := Lock{Start: r.Start, Primary: r.Primary, Op: lockOp(m.Op), TTL: max(r.TTL, l.TTL), ForUpdate: r.ForUpdate, Value: valueOf(m)}
			if r.Primary == m.Key {
				nl.MinCommit = max(r.MinCommit, l.MinCommit)
			}
			plans = append(plans, plan{m.Key, nl})
		default:
			// No lock.
			if m.Action == DoPessimisticCheck {
				out[i] = Err{Class: PessimisticLockNotFound}
				break
			}
			if r.ForUpdate != 0 && m.Action == SkipPessimisticCheck {
				out[i] = Err{Undefined: "pessimistic transaction prewrites an unlocked key without any check"}
				break
			}
			if n := e.newest(); n != nil && n.Commit > r.Start {
				// Newest record of any type (rollback markers and Lock records included).
				er := Err{Class: WriteConflict, Key: m.Key, CommitTS: n.Commit}
				if needNotExist && existsAtStart && r.ForUpdate == 0 {
					er.Alt |= altOf(AlreadyExists)
				}
				out[i] = er
				break
			}
			if w := e.recordOf(r.Start); w != nil && w.Type == WRollback {
				// Late prewrite after the transaction's own rollback (TiKV words it as a
				// write conflict with reason "self rolled back").
				er := Err{Class: AlreadyRolledBack, Alt: altOf(WriteConflict)}
				if needNotExist && existsAtStart && r.ForUpdate == 0 {
					er.Alt |= altOf(AlreadyExists)
				}
				out[i] = er
				break
			}
			if needNotExist && existsAtStart {
				if r.ForUpdate != 0 {
					out[i] = Err{Undefined: "uniqueness check of a pessimistic transaction's prewrite"}
					break
				}
				out[i] = Err{Class: AlreadyExists, Key: m.Key}
				break
			}
			if m.Op == OpCheckNotExists {
				break
			}
			nl := Lock{Start: r.Start, Primary: r.Primary, Op: lockOp(m.Op), TTL: r.TTL, ForUpdate: r.ForUpdate, Value: valueOf(m)}
			if r.Primary == m.Key {
				nl.MinCommit = r.MinCommit
			}
			plans = append(plans, plan{m.Key, nl})
		}
		if m.Op == OpCheckNotExists && r.ForUpdate == 0 && out[i].Undefined == "" {
			// A check-not-exists mutation writes nothing. The property text fixes only
			// its existence answer; whether it also reports locks, newer records or the
			// transaction's own rollback (TiKV does) is left open: the plain existence
			// answer is accepted as well.
			if existsAtStart {
				out[i].Alt |= altOf(AlreadyExists)
			} else {
				out[i].Alt |= altOf(OK)
			}
			if l != nil && l.Start == r.Start && l.Op != OpPessimistic {
				out[i].Alt |= altOf(Locked) // reading through the transaction's own lock
			}
		}
		if !out[i].IsOK() || out[i].Undefined != "" {
			fail = true
		}
	}
	if !fail {
		for _, p := range plans {
			l := p.l
			s.ks(p.k).lock = &l
		}
	}
	return out
}

func lockOp(o Op) Op {
	if o == OpInsert {
		return OpPut
	}
	return o
}

func valueOf(m Mutation) string {
	if m.Op == OpPut || m.Op == OpInsert {
		return m.Value
	}
	return ""
}

// ---------- pessimistic lock ----------

// LockReq is a pessimistic lock request (no waiting).
type LockReq struct {
	Start            uint64
	ForUpdate        uint64
	Primary          string
	TTL              uint64
	MinCommit        uint64
	Keys             []string
	ReturnValues     bool
	CheckExistence   bool
	LockOnlyIfExists bool // requires ReturnValues
	ForceLock        bool // wake-up mode "force lock": lock even over a newer commit and report it
}

// LockResultType is the kind of a per-key lock result.
type LockResultType int

const (
	LockNormal LockResultType = iota
	LockedWithConflict
	LockFailed
)

// LockKeyResult is the per-key answer of a pessimistic lock request.
type LockKeyResult struct {
	Err        Err
	Type       LockResultType
	Value      string // if requested (always for LockedWithConflict)
	Exists     bool   // if requested (always for LockedWithConflict)
	ConflictTS uint64 // LockedWithConflict: commit ts of the newer record
}

// PessimisticLock answers every key against the state before the request and
// applies it only if no key failed.
func (s *Store) PessimisticLock(r LockReq) []LockKeyResult {
	out := make([]LockKeyResult, len(r.Keys))
	type plan struct {
		k string
		l Lock
	}
	var plans []plan
	fail := false
	undefined := func(i int, why string) {
		out[i] = LockKeyResult{Err: Err{Undefined: why}, Type: LockFailed}
	}
	for i, k := range r.Keys {
		e := s.peek(k)
		l := e.lock
		val, _, found := s.Read(k, MaxTS)
		fill := func(res *LockKeyResult) {
			if r.ReturnValues || res.Type == LockedWithConflict {
				res.Value, res.Exists = val, found
			} else if r.CheckExistence {
				res.Exists = found
			}
		}
		switch {
		case r.LockOnlyIfExists && (!r.ReturnValues || r.ForceLock):
			undefined(i, "lock-only-if-exists without return-values or with force-lock")
		case e.done[r.Start]:
			undefined(i, "lock request after the transaction was committed or rolled back on the key")
		case l != nil && l.Start != r.Start:
			er := lockedErr(k, l)
			er.Alt = altOf(Deadlock)
			out[i] = LockKeyResult{Err: er, Type: LockFailed}
		case l != nil && l.Op != OpPessimistic:
			// Own prewrite lock: refused, the prewritten data must not be touched.
			// ("refused": the text does not fix the wording, any refusal is accepted)
			out[i] = LockKeyResult{Err: Err{Class: LockTypeMismatch, Alt: anyRefusal}, Type: LockFailed}
		case l != nil:
			// Own pessimistic lock: idempotent, for-update-ts only raised.
			if n := e.newest(); n != nil && n.Commit > r.ForUpdate {
				undefined(i, "stale pessimistic lock retry below a newer record")
				break
			}
			if r.ForceLock && r.ForUpdate < l.ForUpdate {
				undefined(i, "force-lock retry below the held for-update-ts")
				break
			}
			if r.LockOnlyIfExists && !found && r.ForUpdate > l.ForUpdate {
				undefined(i, "lock-only-if-exists over an own lock on a missing key")
				break
			}
			fill(&out[i])
			if r.ForUpdate > l.ForUpdate {
				plans = append(plans, plan{k, Lock{Start: r.Start, Primary: r.Primary, Op: OpPessimistic, TTL: r.TTL, ForUpdate: r.ForUpdate, MinCommit: r.MinCommit}})
			}
		default:
			fu := r.ForUpdate
			if n := e.newest(); n != nil && n.Commit > r.ForUpdate {
				// Newer record of any type.
				if !r.ForceLock {
					out[i] = LockKeyResult{Err: Err{Class: WriteConflict, Key: k, CommitTS: n.Commit}, Type: LockFailed}
					break
				}
				out[i].Type, out[i].ConflictTS = LockedWithConflict, n.Commit
				if !s.Opt.ForceLockKeepsRequestForUpdateTS {
					fu = n.Commit
				}
			}
			fill(&out[i])
			if r.LockOnlyIfExists && !found {
				break // nothing is locked
			}
			plans = append(plans, plan{k, Lock{Start: r.Start, Primary: r.Primary, Op: OpPessimistic, TTL: r.TTL, ForUpdate: fu, MinCommit: r.MinCommit}})
		}
		if !out[i].Err.IsOK() || out[i].Err.Undefined != "" {
			fail = true
		}
	}
	if !fail {
		for _, p := range plans {
			l := p.l
			s.ks(p.k).lock = &l
		}
	}
	return out
}

// PessimisticRollback removes the transaction's pessimistic locks on keys whose
// for-update-ts is at or below forUpdate. It never fails and leaves no marker.
// With no keys it applies to every key in [startKey, endKey).
func (s *Store) PessimisticRollback(startKey, endKey string, keys []string, start, forUpdate uint64) {
	if len(keys) == 0 {
		keys = s.keysIn(startKey, endKey)
	}
	for _, k := range keys {
		e := s.peek(k)
		if l := e.lock; l != nil && l.Op == OpPessimistic && l.Start == start && l.ForUpdate <= forUpdate {
			e.lock = nil
		}
	}
}

// ---------- commit / rollback ----------

// Commit commits keys of transaction start at commit. Atomic over the request;
// the first failing key decides the answer.
func (s *Store) Commit(keys []string, start, commit uint64) Err {
	var todo []string
	for _, k := range keys {
		e := s.peek(k)
		if l := e.lock; l != nil && l.Start == start {
			if l.MinCommit > commit {
				return Err{Class: CommitTsExpired, Key: k, MinCommitTS: l.MinCommit}
			}
			todo = append(todo, k)
			continue
		}
		if w := e.recordOf(start); w != nil && w.Type != WRollback {
			continue // committed before: same answer, nothing changes
		}
		return Err{Class: TxnLockNotFound} // never turns a rolled-back key into a committed one
	}
	for _, k := range todo {
		if e := s.ks(k); e.lock != nil && e.lock.Start == start { // (a key listed twice is committed once)
			e.commitLock(commit)
		}
	}
	return Err{}
}

// rollbackKeyCheck answers a rollback of (k, start) without changing anything.
func (s *Store) rollbackKeyCheck(k string, start uint64) Err {
	e := s.peek(k)
	if l := e.lock; l != nil && l.Start == start {
		return Err{}
	}
	if w := e.recordOf(start); w != nil && w.Type != WRollback {
		return Err{Class: AlreadyCommitted, CommitTS: w.Commit}
	}
	return Err{}
}

// rollbackKeyApply makes (k, start) rolled back: own lock removed, marker
// present afterwards in every case (so that a late prewrite is refused).
func (s *Store) rollbackKeyApply(k string, start uint64) {
	e := s.ks(k)
	if l := e.lock; l != nil && l.Start == start {
		e.rollbackLock()
		return
	}
	if e.recordOf(start) == nil {
		e.putMarker(start)
	}
}

// Rollback is BatchRollback: atomic over the request.
func (s *Store) Rollback(keys []string, start uint64) Err {
	for _, k := range keys {
		if er := s.rollbackKeyCheck(k, start); !er.IsOK() {
			return er
		}
	}
	for _, k := range keys {
		s.rollbackKeyApply(k, start)
	}
	return Err{}
}

func expired(l *Lock, current uint64) bool { return Physical(l.Start)+l.TTL < Physical(current) }

// Cleanup rolls the transaction back on k unless its lock is still alive at
// current (current == 0: unconditionally).
func (s *Store) Cleanup(k string, start, current uint64) Err {
	if l := s.peek(k).lock; l != nil && l.Start == start && current != 0 && !expired(l, current) {
		return lockedErr(k, l)
	}
	if er := s.rollbackKeyCheck(k, start); !er.IsOK() {
		return er
	}
	s.rollbackKeyApply(k, start)
	return Err{}
}

// ---------- status check / heartbeat ----------

// StatusAction is what a status check did.
type StatusAction int

const (
	NoAction StatusAction = iota
	TTLExpireRollback
	LockNotExistRollback
	MinCommitTSPushed
	TTLExpirePessimisticRollback
	LockNotExistDoNothing
)

func (a StatusAction) String() string {
	return [...]string{"NoAction", "TTLExpireRollback", "LockNotExistRollback", "MinCommitTSPushed", "TTLExpirePessimisticRollback", "LockNotExistDoNothing"}[a]
}

// Status is the answer of CheckTxnStatus.
type Status struct {
	Err      Err
	TTL      uint64 // lock alive
	CommitTS uint64 // committed
	Action   StatusAction
}

// CheckTxnStatus inspects the primary lock of transaction lockTS on key primary.
func (s *Store) CheckTxnStatus(primary string, lockTS, caller, current uint64, rollbackIfNotExist, resolvingPessimistic bool) Status {
	e := s.ks(primary)
	if l := e.lock; l != nil && l.Start == lockTS {
		if expired(l, current) {
			if resolvingPessimistic && l.Op == OpPessimistic {
				e.lock = nil // just unlocked, no marker
				return Status{Action: TTLExpirePessimisticRollback}
			}
			e.rollbackLock()
			return Status{Action: TTLExpireRollback}
		}
		st := Status{TTL: l.TTL}
		if caller == MaxTS {
			st.Action = MinCommitTSPushed // pretend: the reader may ignore the lock next time
		} else if l.MinCommit > 0 {
			if l.MinCommit < caller+1 {
				l.MinCommit = max(caller+1, current)
			}
			if l.MinCommit > caller {
				st.Action = MinCommitTSPushed
			}
		}
		return st
	}
	if w := e.recordOf(lockTS); w != nil {
		if w.Type == WRollback {
			return Status{}
		}
		return Status{CommitTS: w.Commit}
	}
	if !rollbackIfNotExist {
		return Status{Err: Err{Class: TxnNotFound}}
	}
	if resolvingPessimistic {
		return Status{Action: LockNotExistDoNothing}
	}
	e.putMarker(lockTS)
	return Status{Action: LockNotExistRollback}
}

// TxnHeartBeat raises the ttl of the primary lock to advise (never lowers it)
// and returns the resulting ttl.
func (s *Store) TxnHeartBeat(k string, start, advise uint64) (uint64, Err) {
	l := s.peek(k).lock
	if l == nil || l.Start != start {
		return 0, Err{Class: TxnNotFound}
	}
	if l.Primary != k {
		return 0, Err{Undefined: "heartbeat on a non-primary lock"}
	}
	l.TTL = max(l.TTL, advise)
	return l.TTL, Err{}
}

// ---------- resolve ----------

// ResolveLock commits (commit > 0) or rolls back every lock of start in [startKey, endKey).
func (s *Store) ResolveLock(startKey, endKey string, start, commit uint64) Err {
	return s.BatchResolveLock(startKey, endKey, map[uint64]uint64{start: commit})
}

// BatchResolveLock does the same for several transactions (start -> commit, 0 = roll back).
func (s *Store) BatchResolveLock(startKey, endKey string, txns map[uint64]uint64) Err {
	ks := s.keysIn(startKey, endKey)
	for _, k := range ks {
		if l := s.keys[k].lock; l != nil {
			if c, ok := txns[l.Start]; ok && c > 0 && l.MinCommit > c {
				return Err{Undefined: "resolve-commit below the lock's min-commit-ts"}
			}
		}
	}
	for _, k := range ks {
		e := s.keys[k]
		if l := e.lock; l != nil {
			if c, ok := txns[l.Start]; ok {
				if c > 0 {
					e.commitLock(c)
				} else {
					e.rollbackLock()
				}
			}
		}
	}
	return Err{}
}

// ---------- GC ----------

// GC refuses to run if a lock with start <= safe exists in the range.
// Otherwise, per key, every record above safe is kept; of the records at or
// below safe only the newest data record is kept and only if it is a Put
// (rollback markers, Lock records, deletes and older versions are dropped).
// Every read at ts >= safe is unchanged.
func (s *Store) GC(startKey, endKey string, safe uint64) Err {
	ks := s.keysIn(startKey, endKey)
	for _, k := range ks {
		if l := s.keys[k].lock; l != nil && l.Start <= safe {
			return Err{Class: GCBlocked}
		}
	}
	for _, k := range ks {
		e := s.keys[k]
		var keep []Write
		seenData := false
		for _, w := range e.writes {
			switch {
			case w.Commit > safe:
				keep = append(keep, w)
			case w.Type == WPut || w.Type == WDelete:
				if !seenData && w.Type == WPut {
					keep = append(keep, w)
				}
				seenData = true
			}
		}
		e.writes = keep
	}
	return Err{}
}

// Package omap is the boring reference model of a transaction write buffer:
// an ordered map key -> (value | tombstone, flags) plus a stack of staging
// levels that share one append-only undo log. It imports nothing from the code
// under test; harnesses translate between its types and the real ones.
//
// Documented behaviour it encodes (sources: kv/keyflags.go, the type comments
// of art.ART / rbt.RBT, the MemBuffer interface comments, property C08/C07):
//
//   - two maps: key => value (rollbackable) and key => flags (NOT rollbackable);
//   - a value write appends a new version of the key to the undo log, except
//     that a non-empty value of the same length written in the *current*
//     staging level (or with no staging level at all) is overwritten in place;
//   - Cleanup(h) / RevertToCheckpoint(cp) walk the log backwards restoring the
//     previous version; when a *newly added* key is undone, its non-persistent
//     flags are cleared; if persistent flags remain the key stays as a
//     flags-only key, otherwise it disappears;
//   - Release keeps the writes;
//   - a checkpoint is a position of the undo log; reverting to it restores
//     exactly the content that existed when it was taken (property C07), so a
//     live checkpoint is a barrier for the in-place overwrite as well;
//   - every value write clears NeedConstraintCheckInPrewrite unless the same
//     call sets it; a flags-only update does not;
//   - the snapshot view is the content below staging level 1 (the whole
//     content when nothing is staged);
//   - a tombstone is a value of length 0; readers of the buffer see it as an
//     existing entry with an empty value (the union store hides it).
package omap

import (
	"sort"
	"strconv"
	"strings"
)

// Flags is the model's own flag set (bit positions are private to the model).
type Flags uint32

const (
	FPresumeKNE Flags = 1 << iota
	FLocked
	FNeedLocked
	FLockedValExist
	FNeedCheckExists
	FPrewriteOnly
	FIgnoredIn2PC
	FReadable
	FNewlyInserted
	FAssertExist
	FAssertNotExist
	FNeedConstraintCheck
	FPrevPresumeKNE
	FLockedShare
)

// Persistent is the documented set of flags that survive the undo of a newly
// added key (kv/keyflags.go: persistentFlags).
const Persistent = FLocked | FLockedValExist | FNeedConstraintCheck | FLockedShare

// FlagOp mirrors the documented flag operations (kv.FlagsOp) by name.
type FlagOp int

const (
	SetPresumeKNE FlagOp = iota
	DelPresumeKNE
	SetLocked
	DelLocked
	SetNeedLocked
	DelNeedLocked
	SetLockedValueExists
	SetLockedValueNotExists
	DelNeedCheckExists
	SetPrewriteOnly
	SetIgnoredIn2PC
	SetReadable
	SetNewlyInserted
	SetAssertExist
	SetAssertNotExist
	SetAssertUnknown
	SetAssertNone
	SetNeedConstraintCheck
	DelNeedConstraintCheck
	SetPrevPresumeKNE
	SetLockedShare
	SetLockedExclusive
	NumFlagOps
)

var flagOpNames = [...]string{"SetPresumeKeyNotExists", "DelPresumeKeyNotExists", "SetKeyLocked", "DelKeyLocked", "SetNeedLocked", "DelNeedLocked",
	"SetKeyLockedValueExists", "SetKeyLockedValueNotExists", "DelNeedCheckExists", "SetPrewriteOnly", "SetIgnoredIn2PC", "SetReadable",
	"SetNewlyInserted", "SetAssertExist", "SetAssertNotExist", "SetAssertUnknown", "SetAssertNone", "SetNeedConstraintCheckInPrewrite",
	"DelNeedConstraintCheckInPrewrite", "SetPreviousPresumeKNE", "SetKeyLockedInShareMode", "SetKeyLockedInExclusiveMode"}

func (o FlagOp) String() string {
	if o >= 0 && int(o) < len(flagOpNames) {
		return flagOpNames[o]
	}
	return "FlagOp(" + strconv.Itoa(int(o)) + ")"
}

// Apply applies ops to f following the comments of kv/keyflags.go.
func Apply(f Flags, ops ...FlagOp) Flags {
	for _, op := range ops {
		switch op {
		case SetPresumeKNE: // "Implies KeyFlags.HasNeedCheckExists() == true"
			f |= FPresumeKNE | FNeedCheckExists
		case DelPresumeKNE: // "reverts SetPresumeKeyNotExists"
			f &^= FPresumeKNE | FNeedCheckExists
		case SetLocked:
			f |= FLocked
		case DelLocked:
			f &^= FLocked
		case SetNeedLocked:
			f |= FNeedLocked
		case DelNeedLocked:
			f &^= FNeedLocked
		case SetLockedValueExists: // "When the key gets locked (and the existence is checked), the flag should be removed"
			f |= FLockedValExist
			f &^= FNeedConstraintCheck
		case SetLockedValueNotExists:
			f &^= FLockedValExist
			f &^= FNeedConstraintCheck
		case DelNeedCheckExists:
			f &^= FNeedCheckExists
		case SetPrewriteOnly:
			f |= FPrewriteOnly
		case SetIgnoredIn2PC:
			f |= FIgnoredIn2PC
		case SetReadable:
			f |= FReadable
		case SetNewlyInserted:
			f |= FNewlyInserted
		case SetAssertExist:
			f &^= FAssertNotExist
			f |= FAssertExist
		case SetAssertNotExist:
			f &^= FAssertExist
			f |= FAssertNotExist
		case SetAssertUnknown:
			f |= FAssertExist | FAssertNotExist
		case SetAssertNone:
			f &^= FAssertExist | FAssertNotExist
		case SetNeedConstraintCheck:
			f |= FNeedConstraintCheck
		case DelNeedConstraintCheck:
			f &^= FNeedConstraintCheck
		case SetPrevPresumeKNE:
			f |= FPrevPresumeKNE
		case SetLockedShare:
			f |= FLockedShare
		case SetLockedExclusive:
			f &^= FLockedShare
		}
	}
	return f
}

// MaxKeyLen is the documented maximum key length (math.MaxUint16).
const MaxKeyLen = 65535

// Unlimited is the "no limit" value of the size limits.
const Unlimited = ^uint64(0)

// ErrClass is the class of the answer of a write.
type ErrClass int

const (
	OK ErrClass = iota
	ErrKeyTooLarge
	ErrEntryTooLarge
	ErrTxnTooLarge    // the write IS applied, then the buffer limit is reported
	ErrCannotSetEmpty // Set/SetWithFlags with an empty value
)

func (e ErrClass) String() string {
	return [...]string{"ok", "ErrKeyTooLarge", "ErrEntryTooLarge", "ErrTxnTooLarge", "ErrCannotSetNilValue"}[e]
}

// Version is one entry of a key's value history.
type Version struct {
	Val []byte // len 0 = tombstone
	Pos int    // index in the undo log
	// CpOnly: this version was appended (instead of overwriting its predecessor
	// in place) only because a live checkpoint lies between them. An
	// implementation that ignores checkpoints for the in-place decision shows a
	// shorter value history here; harnesses skip the history oracle for such keys
	// and leave the verdict to the values observed after the revert.
	CpOnly bool
}

// Entry is the state of one key.
type Entry struct {
	Flags Flags
	Hist  []Version // oldest first; empty = flags-only key
}

// Model is the reference buffer.
type Model struct {
	M           map[string]*Entry
	Log         []string // key of each undo record, in append order
	Stages      []int    // log length when each staging level was opened
	Cps         []int    // live checkpoints (log positions), in creation order = ascending
	Dirty       bool
	EntryLimit  uint64
	BufferLimit uint64

	sorted []string // cache of Keys(), dropped whenever the key set changes
}

// New returns an empty model without limits.
func New() *Model {
	return &Model{M: map[string]*Entry{}, EntryLimit: Unlimited, BufferLimit: Unlimited}
}

// Clone returns a deep copy.
func (m *Model) Clone() *Model {
	c := &Model{M: make(map[string]*Entry, len(m.M)), Dirty: m.Dirty, EntryLimit: m.EntryLimit, BufferLimit: m.BufferLimit}
	c.Log = append([]string(nil), m.Log...)
	c.Stages = append([]int(nil), m.Stages...)
	c.Cps = append([]int(nil), m.Cps...)
	for k, e := range m.M {
		ne := &Entry{Flags: e.Flags, Hist: make([]Version, len(e.Hist))}
		for i, v := range e.Hist {
			ne.Hist[i] = Version{Val: append([]byte(nil), v.Val...), Pos: v.Pos, CpOnly: v.CpOnly}
		}
		c.M[k] = ne
	}
	return c
}

// SetLimits sets the entry and buffer size limits.
func (m *Model) SetLimits(entry, buffer uint64) { m.EntryLimit, m.BufferLimit = entry, buffer }

// Write is the single write primitive. value == nil: flags only (UpdateFlags);
// len(value) == 0 and non-nil: tombstone; otherwise a value.
func (m *Model) Write(key []byte, value []byte, ops ...FlagOp) ErrClass {
	if len(key) > MaxKeyLen {
		return ErrKeyTooLarge
	}
	if value != nil && uint64(len(key)+len(value)) > m.EntryLimit {
		return ErrEntryTooLarge
	}
	if len(m.Stages) == 0 {
		m.Dirty = true
	}
	e := m.M[string(key)]
	if e == nil {
		e = &Entry{}
		m.M[string(key)] = e
		m.sorted = nil
	}
	if value != nil {
		e.Flags = Apply(Apply(e.Flags, DelNeedConstraintCheck), ops...)
	} else {
		e.Flags = Apply(e.Flags, ops...)
	}
	if e.Flags&Persistent != 0 {
		m.Dirty = true
	}
	if value == nil {
		return OK
	}
	cpOnly := false
	if n := len(e.Hist); n > 0 {
		top := &e.Hist[n-1]
		modifiable := len(m.Stages) == 0 || top.Pos >= m.Stages[len(m.Stages)-1]
		if modifiable && len(top.Val) > 0 && len(top.Val) == len(value) {
			if len(m.Cps) == 0 || top.Pos >= m.Cps[len(m.Cps)-1] {
				top.Val = append([]byte(nil), value...)
				return m.bufferCheck()
			}
			cpOnly = true
		}
	}
	e.Hist = append(e.Hist, Version{Val: append([]byte{}, value...), Pos: len(m.Log), CpOnly: cpOnly})
	m.Log = append(m.Log, string(key))
	return m.bufferCheck()
}

func (m *Model) bufferCheck() ErrClass {
	if m.BufferLimit != Unlimited && uint64(m.Size()) > m.BufferLimit {
		return ErrTxnTooLarge
	}
	return OK
}

// Set is MemBuffer.Set / SetWithFlags.
func (m *Model) Set(key, value []byte, ops ...FlagOp) ErrClass {
	if len(value) == 0 {
		return ErrCannotSetEmpty
	}
	return m.Write(key, value, ops...)
}

// Delete is MemBuffer.Delete / DeleteWithFlags.
func (m *Model) Delete(key []byte, ops ...FlagOp) ErrClass { return m.Write(key, []byte{}, ops...) }

// UpdateFlags is MemBuffer.UpdateFlags.
func (m *Model) UpdateFlags(key []byte, ops ...FlagOp) { m.Write(key, nil, ops...) }

// Staging opens a staging level and returns its handle.
func (m *Model) Staging() int {
	m.Stages = append(m.Stages, len(m.Log))
	return len(m.Stages)
}

// Depth is the number of open staging levels.
func (m *Model) Depth() int { return len(m.Stages) }

// Release publishes the top level (h must be 0 or the top handle).
func (m *Model) Release(h int) {
	if h == 0 {
		return
	}
	if h != len(m.Stages) {
		panic("omap: release of a handle that is not the top level")
	}
	if h == 1 && m.Stages[0] != len(m.Log) {
		m.Dirty = true
	}
	m.Stages = m.Stages[:h-1]
}

// Cleanup discards the top level (h == 0 or h > depth: documented no-op).
func (m *Model) Cleanup(h int) {
	if h == 0 || h > len(m.Stages) {
		return
	}
	if h < len(m.Stages) {
		panic("omap: cleanup of a handle below the top level")
	}
	m.revertTo(m.Stages[h-1])
	m.Stages = m.Stages[:h-1]
}

// Checkpoint records the current undo-log position as a live checkpoint and
// returns its index in Cps. Checkpoints die (are dropped from Cps) when the
// log is cut below them; the dropped ones are always a suffix of Cps.
func (m *Model) Checkpoint() int {
	m.Cps = append(m.Cps, len(m.Log))
	return len(m.Cps) - 1
}

// CanRevert tells whether reverting to live checkpoint i is a meaningful
// request: no open staging level starts after it (it would dangle).
func (m *Model) CanRevert(i int) bool {
	if i < 0 || i >= len(m.Cps) {
		return false
	}
	return len(m.Stages) == 0 || m.Stages[len(m.Stages)-1] <= m.Cps[i]
}

// RevertToCheckpoint undoes every write after live checkpoint i (which stays live).
func (m *Model) RevertToCheckpoint(i int) { m.revertTo(m.Cps[i]) }

// HasCpOnly reports whether the history of key contains a version that exists
// only because of a checkpoint barrier (see Version.CpOnly).
func (m *Model) HasCpOnly(key []byte) bool {
	if e := m.M[string(key)]; e != nil {
		for _, v := range e.Hist {
			if v.CpOnly {
				return true
			}
		}
	}
	return false
}

func (m *Model) revertTo(pos int) {
	for i := len(m.Log) - 1; i >= pos; i-- {
		k := m.Log[i]
		e := m.M[k]
		e.Hist = e.Hist[:len(e.Hist)-1]
		if len(e.Hist) == 0 {
			// a newly added key is discarded: non-persistent flags are cleared
			if kept := e.Flags & Persistent; kept == 0 {
				delete(m.M, k)
				m.sorted = nil
			} else {
				e.Flags = kept
			}
		}
	}
	m.Log = m.Log[:pos]
	for len(m.Cps) > 0 && m.Cps[len(m.Cps)-1] > pos {
		m.Cps = m.Cps[:len(m.Cps)-1]
	}
}

// Get returns the current value of key (empty = tombstone) and whether the key has a value.
func (m *Model) Get(key []byte) ([]byte, bool) {
	e := m.M[string(key)]
	if e == nil || len(e.Hist) == 0 {
		return nil, false
	}
	return e.Hist[len(e.Hist)-1].Val, true
}

// GetFlags returns the flags of key and whether the key is known at all.
func (m *Model) GetFlags(key []byte) (Flags, bool) {
	e := m.M[string(key)]
	if e == nil {
		return 0, false
	}
	return e.Flags, true
}

// Len counts keys (flags-only keys and tombstones included).
func (m *Model) Len() int { return len(m.M) }

// Size is the sum of key lengths and current value lengths.
func (m *Model) Size() int {
	s := 0
	for k, e := range m.M {
		s += len(k)
		if n := len(e.Hist); n > 0 {
			s += len(e.Hist[n-1].Val)
		}
	}
	return s
}

// SnapshotPos is the log position that bounds the snapshot view.
func (m *Model) SnapshotPos() int {
	if len(m.Stages) > 0 {
		return m.Stages[0]
	}
	return len(m.Log)
}

// SnapshotGet reads key from the snapshot view.
func (m *Model) SnapshotGet(key []byte) ([]byte, bool) {
	e := m.M[string(key)]
	if e == nil {
		return nil, false
	}
	p := m.SnapshotPos()
	for i := len(e.Hist) - 1; i >= 0; i-- {
		if e.Hist[i].Pos < p {
			return e.Hist[i].Val, true
		}
	}
	return nil, false
}

// History returns the values of key, newest first (nil if the key has no value).
func (m *Model) History(key []byte) [][]byte {
	e := m.M[string(key)]
	if e == nil {
		return nil
	}
	var out [][]byte
	for i := len(e.Hist) - 1; i >= 0; i-- {
		out = append(out, e.Hist[i].Val)
	}
	return out
}

// KV is one element of an ordered view.
type KV struct {
	Key      string
	Val      []byte
	Flags    Flags
	HasValue bool
}

// Keys returns all known keys in ascending order (do not modify the result).
func (m *Model) Keys() []string {
	if m.sorted != nil || len(m.M) == 0 {
		return m.sorted
	}
	ks := make([]string, 0, len(m.M))
	for k := range m.M {
		ks = append(ks, k)
	}
	sort.Strings(ks)
	m.sorted = ks
	return ks
}

// View returns the ascending list of entries. withFlagsOnly includes keys
// without value; snapshot selects the snapshot view (values only).
func (m *Model) View(withFlagsOnly, snapshot bool) []KV {
	var out []KV
	for _, k := range m.Keys() {
		e := m.M[k]
		var v []byte
		var ok bool
		if snapshot {
			v, ok = m.SnapshotGet([]byte(k))
		} else {
			v, ok = m.Get([]byte(k))
		}
		if ok || (withFlagsOnly && !snapshot) {
			out = append(out, KV{Key: k, Val: v, Flags: e.Flags, HasValue: ok})
		}
	}
	return out
}

// Range filters an ascending view to lower <= key < upper (empty bound =
// unbounded) and reverses it if asked.
func Range(view []KV, lower, upper []byte, reverse bool) []KV {
	var out []KV
	for _, kv := range view {
		if len(lower) > 0 && kv.Key < string(lower) {
			continue
		}
		if len(upper) > 0 && kv.Key >= string(upper) {
			continue
		}
		out = append(out, kv)
	}
	if reverse {
		for i, j := 0, len(out)-1; i < j; i, j = i+1, j-1 {
			out[i], out[j] = out[j], out[i]
		}
	}
	return out
}

// InspectStage lists the keys whose current value was written in level h or above.
func (m *Model) InspectStage(h int) []KV {
	var out []KV
	for i := len(m.Log) - 1; i >= m.Stages[h-1]; i-- {
		k := m.Log[i]
		e := m.M[k]
		if top := e.Hist[len(e.Hist)-1]; top.Pos == i {
			out = append(out, KV{Key: k, Val: top.Val, Flags: e.Flags, HasValue: true})
		}
	}
	sort.Slice(out, func(i, j int) bool { return out[i].Key < out[j].Key })
	return out
}

// Canon returns the canonical state string used for deduplication. Two model states with
// equal Canon have the same futures for every observation of this package:
// log positions matter only relative to the staging/checkpoint marks (which
// segment a version lies in decides in-place overwrite, undo and snapshot
// visibility), and the order of records of *different* keys inside one segment
// is not observable (InspectStage is compared as a set). Per-key version order
// is kept.
func (m *Model) Canon() string {
	marks := m.Cps
	all := append(append([]int(nil), m.Stages...), marks...)
	sort.Ints(all)
	seg := func(pos int) int { // number of marks <= pos
		return sort.SearchInts(all, pos+1)
	}
	rank := func(mark int) int { return sort.SearchInts(all, mark) } // marks below it
	var b strings.Builder
	for _, k := range m.Keys() {
		e := m.M[k]
		b.WriteString(strconv.Quote(k))
		b.WriteByte(':')
		b.WriteString(strconv.FormatUint(uint64(e.Flags), 16))
		for _, v := range e.Hist {
			b.WriteByte(',')
			b.WriteString(strconv.Itoa(seg(v.Pos)))
			b.WriteByte('=')
			if len(v.Val) > 16 {
				b.WriteString(strconv.Itoa(len(v.Val)))
				b.WriteByte('#')
				b.WriteString(strconv.FormatUint(fnv(v.Val), 16))
			} else {
				b.WriteString(strconv.Quote(string(v.Val)))
			}
		}
		b.WriteByte(';')
	}
	b.WriteString("|S")
	for _, s := range m.Stages {
		b.WriteByte(' ')
		b.WriteString(strconv.Itoa(rank(s)))
		if s == len(m.Log) {
			b.WriteByte('e') // nothing written since (Release(1) dirtiness)
		}
	}
	b.WriteString("|C")
	for _, c := range marks {
		b.WriteByte(' ')
		b.WriteString(strconv.Itoa(rank(c)))
		if c == len(m.Log) {
			b.WriteByte('e')
		}
	}
	if m.Dirty {
		b.WriteString("|D")
	}
	if m.EntryLimit != Unlimited || m.BufferLimit != Unlimited {
		b.WriteString("|L" + strconv.FormatUint(m.EntryLimit, 10) + "," + strconv.FormatUint(m.BufferLimit, 10))
	}
	return b.String()
}

func fnv(b []byte) uint64 {
	h := uint64(14695981039346656037)
	for _, c := range b {
		h ^= uint64(c)
		h *= 1099511628211
	}
	return h
}

// Package vrand is a drop-in replacement for the package-level functions of
// math/rand. Repository files are switched to it by an import rewrite rule:
//
//	rewrite config/retry math/rand=github.com/tikv/client-go/v2/verifrt/vrand
//
// Every package-level draw (Intn, Int63n, Int31n, Int, Int63, Int31, Uint32,
// Uint64, Float64, Float32, Perm, Shuffle) asks the installed Decider. With no
// decider installed (the default) every function behaves exactly like
// math/rand. Types (Rand, Source, Source64, Zipf) are aliases of the real ones
// and New/NewSource/NewZipf are passed through: a *Rand created by the code
// under test is NOT hooked (none of the rewritten files does that today).
//
// # Controller API
//
//	vrand.SetSource(d)   // d == nil: back to math/rand
//	vrand.GetSource()
//
// The decider is process wide and must be goroutine-safe; a harness that runs
// independent explorations in parallel installs one decider that routes by
// calling goroutine. An answer outside the requested range panics with a
// message starting "vrand:" (a harness bug, not a defect of the code under
// test). Script is a ready-made decider that answers from a list of picks.
package vrand

import (
	"fmt"
	"math/rand"
	"sync"
	"sync/atomic"
)

type (
	Rand     = rand.Rand
	Source   = rand.Source
	Source64 = rand.Source64
	Zipf     = rand.Zipf
)

func New(src Source) *Rand                             { return rand.New(src) }
func NewSource(seed int64) Source                      { return rand.NewSource(seed) }
func NewZipf(r *Rand, s, v float64, imax uint64) *Zipf { return rand.NewZipf(r, s, v, imax) }

// Seed is kept for source compatibility; it only affects the fallback.
func Seed(seed int64) { rand.Seed(seed) } //nolint

// Decider answers the random draws of rewritten code. api is the name of the
// called function ("Intn", "Int63n", "Perm", ...), so that a decider can log
// or distinguish call sites.
type Decider interface {
	// Intn answers a draw from [0,n), n > 0.
	Intn(api string, n int64) int64
	// Bits answers a draw of `bits` uniformly random bits (31, 32, 63 or 64);
	// only the low `bits` bits of the answer are used.
	Bits(api string, bits int) uint64
	// Float answers a draw from [0,1).
	Float(api string) float64
}

type srcBox struct{ d Decider }

var current atomic.Pointer[srcBox]

// SetSource installs d for the whole process; nil restores math/rand.
func SetSource(d Decider) {
	if d == nil {
		current.Store(nil)
		return
	}
	current.Store(&srcBox{d})
}

// GetSource returns the installed decider or nil.
func GetSource() Decider {
	if b := current.Load(); b != nil {
		return b.d
	}
	return nil
}

func ask(api string, n int64) int64 {
	d := GetSource()
	v := d.Intn(api, n)
	if v < 0 || v >= n {
		panic(fmt.Sprintf("vrand: decider answered %d for %s(%d)", v, api, n))
	}
	return v
}

func Intn(n int) int {
	if n <= 0 || GetSource() == nil {
		return rand.Intn(n) // panics for n <= 0 exactly like math/rand
	}
	return int(ask("Intn", int64(n)))
}

func Int63n(n int64) int64 {
	if n <= 0 || GetSource() == nil {
		return rand.Int63n(n)
	}
	return ask("Int63n", n)
}

func Int31n(n int32) int32 {
	if n <= 0 || GetSource() == nil {
		return rand.Int31n(n)
	}
	return int32(ask("Int31n", int64(n)))
}

func bits(api string, n int) uint64 {
	v := GetSource().Bits(api, n)
	if n < 64 {
		v &= (1 << uint(n)) - 1
	}
	return v
}

func Int63() int64 {
	if GetSource() == nil {
		return rand.Int63()
	}
	return int64(bits("Int63", 63))
}

func Int31() int32 {
	if GetSource() == nil {
		return rand.Int31()
	}
	return int32(bits("Int31", 31))
}

func Int() int {
	if GetSource() == nil {
		return rand.Int()
	}
	return int(bits("Int", 63))
}

func Uint32() uint32 {
	if GetSource() == nil {
		return rand.Uint32()
	}
	return uint32(bits("Uint32", 32))
}

func Uint64() uint64 {
	if GetSource() == nil {
		return rand.Uint64()
	}
	return bits("Uint64", 64)
}

func Float64() float64 {
	d := GetSource()
	if d == nil {
		return rand.Float64()
	}
	v := d.Float("Float64")
	if !(v >= 0 && v < 1) {
		panic(fmt.Sprintf("vrand: decider answered %v for Float64", v))
	}
	return v
}

func Float32() float32 {
	d := GetSource()
	if d == nil {
		return rand.Float32()
	}
	v := float32(d.Float("Float32"))
	if !(v >= 0 && v < 1) {
		panic(fmt.Sprintf("vrand: decider answered %v for Float32", v))
	}
	return v
}

// Perm returns a permutation built from decider draws with the rule of Shuffle.
func Perm(n int) []int {
	if GetSource() == nil {
		return rand.Perm(n)
	}
	m := make([]int, n)
	for i := range m {
		m[i] = i
	}
	shuffle("Perm", n, func(i, j int) { m[i], m[j] = m[j], m[i] })
	return m
}

// Shuffle: for i = n-1 .. 1 the decider is asked Intn(i+1) = j and swap(i,j)
// is called. Answering always i (the maximum) leaves the order unchanged.
func Shuffle(n int, swap func(i, j int)) {
	if n < 0 {
		panic("invalid argument to Shuffle")
	}
	if GetSource() == nil {
		rand.Shuffle(n, swap)
		return
	}
	shuffle("Shuffle", n, swap)
}

func shuffle(api string, n int, swap func(i, j int)) {
	for i := n - 1; i > 0; i-- {
		j := int(ask(api, int64(i+1)))
		swap(i, j)
	}
}

// Pick is one scripted answer.
type Pick int

const (
	// Min answers 0 (all bits zero, 0.0).
	Min Pick = -1
	// Max answers n-1 (all bits one, the largest float below 1).
	Max Pick = -2
	// Values >= 0 answer min(value, n-1).
)

// Draw is one logged draw of a Script.
type Draw struct {
	API    string
	N      int64 // bound for Intn-like draws, number of bits for Bits, 0 for Float
	Answer int64 // answer for Intn-like draws and Bits (truncated), 0 for Float
}

// Script is a goroutine-safe Decider that answers from Picks in order and
// with Default once they are used up, and logs every draw.
type Script struct {
	mu      sync.Mutex
	Picks   []Pick
	Default Pick
	Log     []Draw
	next    int
}

func (s *Script) pick() Pick {
	if s.next < len(s.Picks) {
		p := s.Picks[s.next]
		s.next++
		return p
	}
	return s.Default
}

func (s *Script) Intn(api string, n int64) int64 {
	s.mu.Lock()
	defer s.mu.Unlock()
	var v int64
	switch p := s.pick(); {
	case p == Min:
		v = 0
	case p == Max:
		v = n - 1
	default:
		v = int64(p)
		if v > n-1 {
			v = n - 1
		}
	}
	s.Log = append(s.Log, Draw{api, n, v})
	return v
}

func (s *Script) Bits(api string, bits int) uint64 {
	s.mu.Lock()
	defer s.mu.Unlock()
	var v uint64
	switch p := s.pick(); {
	case p == Min:
		v = 0
	case p == Max:
		v = ^uint64(0)
	default:
		v = uint64(p)
	}
	s.Log = append(s.Log, Draw{api, int64(bits), int64(v)})
	return v
}

func (s *Script) Float(api string) float64 {
	s.mu.Lock()
	defer s.mu.Unlock()
	v := 0.0
	switch p := s.pick(); {
	case p == Min:
	case p == Max:
		v = 1 - 1.0/(1<<53)
	default:
		v = float64(p) / float64(1<<31)
		if v >= 1 {
			v = 1 - 1.0/(1<<53)
		}
	}
	s.Log = append(s.Log, Draw{api, 0, 0})
	return v
}

// Drawn returns a copy of the log.
func (s *Script) Drawn() []Draw {
	s.mu.Lock()
	defer s.mu.Unlock()
	return append([]Draw(nil), s.Log...)
}

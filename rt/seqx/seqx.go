// Package seqx is the explicit-state breadth-first search over operation
// sequences (DESIGN.md 3.2). A state is the shortest operation history that
// reaches it; a successor is executed by the caller on fresh instances
// (replay + one more operation). States are merged by the canonical
// reference-model key that the caller returns.
//
// Determinism: the frontier is processed in batches; the work inside a batch
// runs on goroutines, but results are merged strictly in (state index, op
// index) order, so state numbering, the kept (shortest, first) counterexample
// of every violation key and all counters are independent of scheduling.
package seqx

import (
	"crypto/sha256"
	"encoding/binary"
	"fmt"
	"runtime"
	"sync"
	"sync/atomic"
	"time"
)

// Op is one operation; it must be JSON-serialisable (it goes into replay files).
type Op = any

// Key is a 128-bit digest of a canonical state / outcome string. Collisions
// (2^-64 birthday bound at 2^32 states) are ignored.
type Key [2]uint64

// Digest hashes a canonical string.
func Digest(s string) Key {
	h := sha256.Sum256([]byte(s))
	return Key{binary.LittleEndian.Uint64(h[:8]), binary.LittleEndian.Uint64(h[8:16])}
}

// Viol is one oracle failure found while executing a history.
type Viol struct {
	Key  string // stable class
	What string // one line
}

// Result is what executing one history yields.
type Result struct {
	State      Key    // canonical reference-model state after the last op
	Outcome    Key    // digest of everything observed after the last op
	NonTrivial bool   // caller-defined
	Viols      []Viol // oracle failures of this history (reported)
	Prune      bool   // the implementation state diverged from the model: do not expand (no cascades)
	RealOps    int    // operations executed on the real code (replay included)
}

// Spec describes one search.
type Spec struct {
	Name  string
	Depth int
	// Enabled returns the operations enabled after history h, simplest first.
	Enabled func(h []Op) []Op
	// Exec replays h on fresh real instances and checks the oracle after the last op.
	Exec func(h []Op) Result
	// Report receives violations in deterministic order.
	Report func(v Viol, h []Op)
	// Sample, if set, is offered every executed history (deterministic order).
	Sample func(h []Op, r Result)
	// Stop is polled between batches; returning true ends the search early.
	Stop    func() bool
	Workers int
}

// Stats are the measured counters of one search.
type Stats struct {
	States        int64   // distinct canonical states (initial state included)
	NonTrivial    int64   // distinct canonical states flagged non-trivial
	Transitions   int64   // histories executed (one oracle evaluation each)
	RealOps       int64   // operations executed on the real code, replay included
	Outcomes      int64   // distinct observation digests
	Violations    int64   // histories with at least one oracle failure
	MaxDepth      int     // deepest level fully executed
	PerDepth      []int64 // new distinct states per depth
	Stopped       bool    // Stop() ended the search
	MaxEnabled    int
	FrontierSizes []int
	ExecSeconds   float64 // wall time of the parallel sections
	MergeSeconds  float64 // wall time of the sequential merges
}

type node struct {
	parent int32
	op     Op
}

// Run performs the search.
func Run(sp Spec) Stats {
	if sp.Workers <= 0 {
		sp.Workers = runtime.GOMAXPROCS(0)
	}
	var st Stats
	nodes := []node{{parent: -1}}
	seen := map[Key]struct{}{}
	outcomes := map[Key]struct{}{}
	init := sp.Exec(nil)
	seen[init.State] = struct{}{}
	outcomes[init.Outcome] = struct{}{}
	st.States = 1
	st.PerDepth = []int64{1}
	for _, v := range init.Viols {
		sp.Report(v, nil)
	}
	if len(init.Viols) > 0 {
		st.Violations++
		if init.Prune {
			return st
		}
	}
	history := func(i int32) []Op {
		var rev []Op
		for i > 0 {
			rev = append(rev, nodes[i].op)
			i = nodes[i].parent
		}
		h := make([]Op, len(rev), len(rev)+1)
		for j := range rev {
			h[j] = rev[len(rev)-1-j]
		}
		return h
	}
	frontier := []int32{0}
	const batch = 2048
	type succ struct {
		op Op
		r  Result
	}
	for d := 0; d < sp.Depth && len(frontier) > 0; d++ {
		st.FrontierSizes = append(st.FrontierSizes, len(frontier))
		var next []int32
		var newStates int64
		last := d+1 == sp.Depth
		for lo := 0; lo < len(frontier); lo += batch {
			if sp.Stop != nil && sp.Stop() {
				st.Stopped = true
				break
			}
			hi := min(lo+batch, len(frontier))
			res := make([][]succ, hi-lo)
			t0 := time.Now()
			var cursor atomic.Int64
			var wg sync.WaitGroup
			for w := 0; w < sp.Workers; w++ {
				wg.Add(1)
				go func() {
					defer wg.Done()
					for {
						j := int(cursor.Add(1)) - 1
						if j >= hi-lo {
							return
						}
						h := history(frontier[lo+j])
						ops := sp.Enabled(h)
						out := make([]succ, len(ops))
						for k, op := range ops {
							out[k] = succ{op: op, r: sp.Exec(append(h[:len(h):len(h)], op))}
						}
						res[j] = out
					}
				}()
			}
			wg.Wait()
			t1 := time.Now()
			st.ExecSeconds += t1.Sub(t0).Seconds()
			for j, out := range res {
				st.MaxEnabled = max(st.MaxEnabled, len(out))
				for _, s := range out {
					st.Transitions++
					st.RealOps += int64(s.r.RealOps)
					outcomes[s.r.Outcome] = struct{}{}
					var h []Op
					if len(s.r.Viols) > 0 || sp.Sample != nil {
						h = append(history(frontier[lo+j]), s.op)
					}
					if sp.Sample != nil {
						sp.Sample(h, s.r)
					}
					if len(s.r.Viols) > 0 {
						st.Violations++
						for _, v := range s.r.Viols {
							sp.Report(v, h)
						}
						if s.r.Prune {
							continue // a diverged state is not expanded (no cascades)
						}
					}
					if _, ok := seen[s.r.State]; ok {
						continue
					}
					seen[s.r.State] = struct{}{}
					newStates++
					if s.r.NonTrivial {
						st.NonTrivial++
					}
					if !last {
						if len(nodes) >= 1<<31-2 {
							panic(fmt.Sprintf("seqx %s: state table overflow", sp.Name))
						}
						nodes = append(nodes, node{parent: frontier[lo+j], op: s.op})
						next = append(next, int32(len(nodes)-1))
					}
				}
			}
			st.MergeSeconds += time.Since(t1).Seconds()
		}
		st.States += newStates
		st.PerDepth = append(st.PerDepth, newStates)
		if st.Stopped {
			break
		}
		st.MaxDepth = d + 1
		frontier = next
	}
	st.Outcomes = int64(len(outcomes))
	return st
}

// Add accumulates b into a (for harnesses that run several searches).
func (a *Stats) Add(b Stats) {
	a.States += b.States
	a.NonTrivial += b.NonTrivial
	a.Transitions += b.Transitions
	a.RealOps += b.RealOps
	a.Outcomes += b.Outcomes
	a.Violations += b.Violations
	a.MaxDepth = max(a.MaxDepth, b.MaxDepth)
	a.MaxEnabled = max(a.MaxEnabled, b.MaxEnabled)
	a.Stopped = a.Stopped || b.Stopped
}

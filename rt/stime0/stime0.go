// Package stime0 replaces package time inside the mock store (mocktikv): like
// stime, but a Sleep elapses at once (the virtual clock moves on). The mock
// sleeps a few milliseconds to "simulate server side lock waiting" while it
// holds its store mutex; as a virtual timer that sleep would keep the mutex
// until the explorer fires it, and the explorer itself reads the store between
// decisions (deadlock). The sleep has no semantic role.
package stime0

import (
	"time"

	"github.com/tikv/client-go/v2/verifrt/sched"
	"github.com/tikv/client-go/v2/verifrt/stime"
)

type (
	Duration = time.Duration
	Time     = time.Time
)

const (
	Nanosecond  = time.Nanosecond
	Microsecond = time.Microsecond
	Millisecond = time.Millisecond
	Second      = time.Second
	Minute      = time.Minute
	Hour        = time.Hour
)

func Now() Time              { return stime.Now() }
func Since(t Time) Duration  { return stime.Since(t) }
func After(d Duration) <-chan Time { return stime.After(d) }

func Sleep(d Duration) {
	if sched.Closing() {
		return
	}
	if !sched.Active() {
		time.Sleep(d)
		return
	}
	sched.Advance(d)
}

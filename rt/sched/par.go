package sched

import (
	"bufio"
	"bytes"
	"encoding/json"
	"fmt"
	"os"
	"os/exec"
	"runtime"
	"strconv"
	"strings"
	"sync"
	"time"
)

// Job is one independently explorable scenario.
type Job struct {
	Name string
	Run  func(deadline time.Time) Report
}

// ShardResult is what RunSharded returns for the whole job list.
type ShardResult struct {
	Reports   []Report // one per finished job (order of completion)
	Crashed   []string // job chunks whose worker died (with stderr tail)
	Unstarted int      // jobs never started because the budget ran out
}

// RunSharded runs the jobs in worker subprocesses (this same binary, GOMAXPROCS=1
// each, recycled per chunk) and merges their reports. In a worker process it
// runs the assigned jobs and exits.
func RunSharded(jobs []Job, budget time.Duration) ShardResult {
	if only := os.Getenv("VERIF_ONLY"); only != "" {
		var f []Job
		for _, j := range jobs {
			if strings.Contains(j.Name, only) {
				f = append(f, j)
			}
		}
		jobs = f
	}
	if w := os.Getenv("VERIF_WORKER"); w != "" {
		runWorker(jobs, w)
		os.Exit(0)
	}
	nproc := runtime.NumCPU()
	if s := os.Getenv("VERIF_PROCS"); s != "" {
		if n, err := strconv.Atoi(s); err == nil && n > 0 {
			nproc = n
		}
	}
	deadline := time.Time{}
	if budget > 0 {
		deadline = time.Now().Add(budget)
	}
	chunk := len(jobs) / (nproc * 8)
	if chunk < 1 {
		chunk = 1
	}
	if chunk > 32 {
		chunk = 32
	}
	var chunks [][]int
	for i := 0; i < len(jobs); i += chunk {
		var c []int
		for j := i; j < i+chunk && j < len(jobs); j++ {
			c = append(c, j)
		}
		chunks = append(chunks, c)
	}
	var res ShardResult
	var mu sync.Mutex
	var wg sync.WaitGroup
	ch := make(chan []int)
	exe, _ := os.Executable()
	for p := 0; p < nproc; p++ {
		wg.Add(1)
		go func() {
			defer wg.Done()
			for c := range ch {
				if !deadline.IsZero() && time.Now().After(deadline) {
					mu.Lock()
					res.Unstarted += len(c)
					mu.Unlock()
					continue
				}
				ss := make([]string, len(c))
				for i, x := range c {
					ss[i] = strconv.Itoa(x)
				}
				cmd := exec.Command(exe, os.Args[1:]...)
				dl := ""
				if !deadline.IsZero() {
					dl = strconv.FormatInt(deadline.UnixNano(), 10)
				}
				cmd.Env = append(os.Environ(), "GOMAXPROCS=1", "VERIF_WORKER="+strings.Join(ss, ","), "VERIF_WORKER_DEADLINE="+dl)
				var stdout, stderr bytes.Buffer
				cmd.Stdout = &stdout
				cmd.Stderr = &stderr
				if os.Getenv("VERIF_DEBUG") != "" {
					cmd.Stderr = os.Stderr
				}
				err := cmd.Run()
				done := map[string]bool{}
				sc := bufio.NewScanner(&stdout)
				sc.Buffer(make([]byte, 1<<20), 1<<28)
				mu.Lock()
				for sc.Scan() {
					line := sc.Bytes()
					if !bytes.HasPrefix(line, []byte("REPORT ")) {
						continue
					}
					var r Report
					if json.Unmarshal(line[7:], &r) == nil {
						res.Reports = append(res.Reports, r)
						done[r.Scenario] = true
					}
				}
				if err != nil {
					tail := stderr.String()
					if i := strings.Index(tail, "panic:"); i >= 0 {
						tail = tail[i:]
					} else if i := strings.Index(tail, "fatal error:"); i >= 0 {
						tail = tail[i:]
					}
					if len(tail) > 3000 {
						tail = tail[:3000]
					}
					var missing []string
					for _, x := range c {
						if !done[jobs[x].Name] {
							missing = append(missing, jobs[x].Name)
						}
					}
					res.Crashed = append(res.Crashed, fmt.Sprintf("worker for %v died: %v\n%s", missing, err, tail))
				}
				mu.Unlock()
			}
		}()
	}
	for _, c := range chunks {
		ch <- c
	}
	close(ch)
	wg.Wait()
	return res
}

func runWorker(jobs []Job, spec string) {
	deadline := time.Time{}
	if s := os.Getenv("VERIF_WORKER_DEADLINE"); s != "" {
		if n, err := strconv.ParseInt(s, 10, 64); err == nil {
			deadline = time.Unix(0, n)
		}
	}
	out := bufio.NewWriter(os.Stdout)
	for _, s := range strings.Split(spec, ",") {
		i, err := strconv.Atoi(s)
		if err != nil || i < 0 || i >= len(jobs) {
			continue
		}
		r := jobs[i].Run(deadline)
		r.Scenario = jobs[i].Name
		b, _ := json.Marshal(r)
		out.WriteString("REPORT ")
		out.Write(b)
		out.WriteString("\n")
		out.Flush()
	}
}

// Merge sums reports (violations are merged by key keeping the shortest trace).
type Merged struct {
	Scenarios   int
	Executions  int64
	Transitions int64
	States      int64
	Nodes       int64
	Pruned      int64
	Diverged    int64
	Deadlocks   int64
	Horizons    int64
	NoQuiesce   int64
	Capped      int
	TimedOut    int
	MaxDepth    int
	Outcomes    map[string]int64
	Violations  map[string]*FoundViolation
	VScenario   map[string]string
	Samples     []any
}

func MergeReports(rs []Report) *Merged {
	m := &Merged{Outcomes: map[string]int64{}, Violations: map[string]*FoundViolation{}, VScenario: map[string]string{}}
	for _, r := range rs {
		m.Scenarios++
		m.Executions += r.Executions
		m.Transitions += r.Transitions
		m.States += r.States
		m.Nodes += r.Nodes
		m.Pruned += r.Pruned
		m.Diverged += r.Diverged
		m.Deadlocks += r.Deadlocks
		m.Horizons += r.Horizons
		m.NoQuiesce += r.NoQuiesce
		if r.Capped {
			m.Capped++
		}
		if r.TimedOut {
			m.TimedOut++
		}
		if r.MaxDepth > m.MaxDepth {
			m.MaxDepth = r.MaxDepth
		}
		for k, v := range r.Outcomes {
			m.Outcomes[k] += v
		}
		for i := range r.Violations {
			v := r.Violations[i]
			if old, ok := m.Violations[v.Key]; ok {
				old.Count += v.Count
				if len(v.Trace) < len(old.Trace) {
					old.Trace, old.What = v.Trace, v.What
					m.VScenario[v.Key] = r.Scenario
				}
			} else {
				m.Violations[v.Key] = &v
				m.VScenario[v.Key] = r.Scenario
			}
		}
		if len(m.Samples) < 6 && len(r.SampleTraces) > 0 {
			m.Samples = append(m.Samples, map[string]any{"scenario": r.Scenario, "schedule": r.SampleTraces[len(r.SampleTraces)-1]})
		}
	}
	return m
}

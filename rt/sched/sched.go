// Package sched is the controlled scheduler ("parksched", DESIGN.md 3.1):
// goroutines of the code under test park at seam points (store RPC, PD
// timestamp request, API call boundaries, virtual timers); one explorer
// goroutine releases exactly one of them at a time after the process has
// become quiescent, so the interleaving of seam events and every environment
// answer is an explorer decision.
//
// The process must run with GOMAXPROCS=1 (exact scheduler metrics, no
// parallel execution between two decisions).
package sched

import (
	"fmt"
	"os"
	"runtime"
	"runtime/metrics"
	"sort"
	"strings"
	"sync"
	"time"
)

// Kind of a parked event.
type Kind int

const (
	KRPC Kind = iota
	KTSO
	KAPI
	KOther
)

func (k Kind) String() string { return [...]string{"rpc", "tso", "api", "other"}[k] }

// Decision is what the explorer tells a parked goroutine.
type Decision struct {
	Kind int // 0 = proceed normally; >0 scenario-defined deviation; -1 = abort (execution torn down)
	Arg  any
}

const Abort = -1

// Event is a goroutine parked at a seam point.
type Event struct {
	Actor   int
	Kind    Kind
	Label   string // stable identity (command + keys ...), no volatile fields
	Payload any    // e.g. the request, for deviation menus / monitors
	seq     int    // arrival number
	batch   int    // quiescence window in which it arrived
	ch      chan Decision
}

func (e *Event) String() string { return fmt.Sprintf("a%d:%s:%s", e.Actor, e.Kind, e.Label) }

// Timer is a virtual timer.
type Timer struct {
	id       int
	Deadline int64 // virtual ns
	Period   int64 // >0 for tickers
	fire     func(now int64)
	stopped  bool
	Label    string
}

// S is the process-wide scheduler state (the time shim is package level, so
// there can be only one).
type state struct {
	mu      sync.Mutex
	active  bool
	closing bool
	gen     int64    // execution number (see Gen)
	setup   bool     // Setup phase: Points pass through, driver goroutines are held back
	held    []func() // driver goroutines to start when the setup phase ends
	pending []*Event
	parked  []chan struct{}
	dead    map[int]bool
	timers  []*Timer
	now     int64 // virtual ns since T0
	seq     int
	batch   int
	timerID int
	running int // driver goroutines started with Go and not yet finished
	wg      sync.WaitGroup
	panics  []string
}

var s state

var timerTrace = os.Getenv("VERIF_TIMER_TRACE")

// T0 is the wall-clock value of virtual time zero.
var T0 = time.Date(2100, 1, 1, 0, 0, 0, 0, time.UTC) // in the future of any wall clock (see unibk: one clock for client and store)

// Gen returns the number of the current execution. Seams remember the generation of the
// world they belong to: a goroutine left over from an earlier execution (e.g. one that was
// blocked inside the store on a real timer) must not register events in a later one.
func Gen() int64 {
	s.mu.Lock()
	defer s.mu.Unlock()
	return s.gen
}

// Active reports whether a controlled execution is in progress.
func Active() bool {
	s.mu.Lock()
	defer s.mu.Unlock()
	return s.active && !s.closing
}

// Reset starts a new controlled execution.
func Reset() {
	s.mu.Lock()
	defer s.mu.Unlock()
	s.active = true
	s.closing = false
	s.gen++
	s.pending = nil
	s.parked = nil
	s.dead = map[int]bool{}
	s.timers = nil
	s.now = 0
	s.seq = 0
	s.batch = 0
	s.timerID = 0
	s.running = 0
	s.panics = nil
	s.setup = false
	s.held = nil
}

// Point parks the calling goroutine until the explorer releases it.
func Point(actor int, kind Kind, label string, payload any) Decision {
	s.mu.Lock()
	if !s.active || s.closing || s.setup {
		closing := s.closing
		s.mu.Unlock()
		if closing {
			return Decision{Kind: Abort}
		}
		return Decision{}
	}
	if s.dead[actor] {
		s.mu.Unlock()
		ParkForever()
		return Decision{Kind: Abort}
	}
	s.seq++
	e := &Event{Actor: actor, Kind: kind, Label: label, Payload: payload, seq: s.seq, batch: s.batch, ch: make(chan Decision, 1)}
	s.pending = append(s.pending, e)
	s.mu.Unlock()
	return <-e.ch
}

// KillActor makes an actor dead: its parked events are never offered again and
// its future Points park forever (a crashed client).
func KillActor(a int) {
	s.mu.Lock()
	s.dead[a] = true
	s.mu.Unlock()
}

// PendingOf returns the number of parked events of an actor.
func PendingOf(actor int) int {
	s.mu.Lock()
	defer s.mu.Unlock()
	n := 0
	for _, e := range s.pending {
		if e.Actor == actor && !s.dead[actor] {
			n++
		}
	}
	return n
}

// ParkForever blocks the calling goroutine until the execution is torn down
// (used for crashed clients: their goroutines never run again).
func ParkForever() {
	s.mu.Lock()
	if !s.active || s.closing {
		s.mu.Unlock()
		return
	}
	ch := make(chan struct{})
	s.parked = append(s.parked, ch)
	s.mu.Unlock()
	<-ch
}

// Go starts a driver goroutine that the end-of-execution test waits for.
// A panic in it is recorded (see Panics) instead of killing the process.
func Go(name string, f func()) {
	s.mu.Lock()
	s.running++
	if s.setup {
		s.held = append(s.held, func() { goDriver(name, f) })
		s.mu.Unlock()
		return
	}
	s.mu.Unlock()
	goDriver(name, f)
}

// BeginSetup / EndSetup bracket Scenario.Setup: while the world is being built
// seam points pass through (the explorer goroutine itself runs the code) and
// drivers registered with Go are started only at EndSetup.
func BeginSetup() {
	s.mu.Lock()
	s.setup = true
	s.mu.Unlock()
}

func EndSetup() {
	s.mu.Lock()
	s.setup = false
	h := s.held
	s.held = nil
	s.mu.Unlock()
	for _, f := range h {
		f()
	}
}

// Sync runs f on the calling (explorer) goroutine in the synchronous phase: seam
// points pass through and sleeps elapse at once. Used by oracles that must
// drive the real client after an execution has ended (forced lock resolution).
func Sync(f func()) {
	s.mu.Lock()
	was := s.setup
	s.setup = true
	s.mu.Unlock()
	defer func() {
		s.mu.Lock()
		s.setup = was
		s.mu.Unlock()
	}()
	f()
}

func goDriver(name string, f func()) {
	go func() {
		defer func() {
			if p := recover(); p != nil {
				buf := make([]byte, 8192)
				buf = buf[:runtime.Stack(buf, false)]
				s.mu.Lock()
				s.panics = append(s.panics, fmt.Sprintf("%s: panic: %v\n%s", name, p, buf))
				s.mu.Unlock()
			}
			s.mu.Lock()
			s.running--
			s.mu.Unlock()
		}()
		f()
	}()
}

// Panics returns panics recorded in driver goroutines.
func Panics() []string {
	s.mu.Lock()
	defer s.mu.Unlock()
	return append([]string{}, s.panics...)
}

// Running returns the number of unfinished driver goroutines.
func Running() int {
	s.mu.Lock()
	defer s.mu.Unlock()
	return s.running
}

// ---- virtual time ----

// NowNS returns virtual nanoseconds since T0.
func NowNS() int64 {
	s.mu.Lock()
	defer s.mu.Unlock()
	return s.now
}

// Now returns the virtual wall-clock time.
func Now() time.Time { return T0.Add(time.Duration(NowNS())) }

// Advance moves the virtual clock forward without firing timers (timers whose
// deadline has passed become due and are fired by the explorer as usual).
func Advance(d time.Duration) {
	s.mu.Lock()
	s.now += int64(d)
	s.mu.Unlock()
}

// AddTimer registers a virtual timer; fire is called by the explorer goroutine.
func AddTimer(d time.Duration, period time.Duration, label string, fire func(now int64)) *Timer {
	s.mu.Lock()
	defer s.mu.Unlock()
	s.timerID++
	if d < 0 {
		d = 0
	}
	t := &Timer{id: s.timerID, Deadline: s.now + int64(d), Period: int64(period), fire: fire, Label: label}
	if timerTrace != "" && label == timerTrace && !s.setup {
		buf := make([]byte, 4096)
		buf = buf[:runtime.Stack(buf, false)]
		fmt.Fprintf(os.Stderr, "TIMER %s created at virtual %d:\n%s\n", label, s.now, buf)
	}
	if s.setup && period == 0 {
		// synchronous phase (Setup / Check run by the explorer goroutine itself): nobody would fire
		// the timer, so a sleep elapses at once and the clock moves on
		s.now = t.Deadline
		t.stopped = true
		now := s.now
		s.mu.Unlock()
		fire(now)
		s.mu.Lock()
		return t
	}
	s.timers = append(s.timers, t)
	return t
}

// StopTimer removes a timer; reports whether it was still pending.
func StopTimer(t *Timer) bool {
	s.mu.Lock()
	defer s.mu.Unlock()
	if t.stopped {
		return false
	}
	t.stopped = true
	for i, x := range s.timers {
		if x == t {
			s.timers = append(s.timers[:i], s.timers[i+1:]...)
			return true
		}
	}
	return false
}

// ResetTimer re-arms a timer.
func ResetTimer(t *Timer, d time.Duration) bool {
	was := StopTimer(t)
	s.mu.Lock()
	t.stopped = false
	t.Deadline = s.now + int64(d)
	s.timers = append(s.timers, t)
	s.mu.Unlock()
	return was
}

// fireTimer advances the clock to the timer's deadline (if later) and fires it.
func fireTimer(t *Timer) {
	s.mu.Lock()
	if t.stopped {
		s.mu.Unlock()
		return
	}
	if t.Deadline > s.now {
		s.now = t.Deadline
	}
	now := s.now
	if t.Period > 0 {
		t.Deadline = now + t.Period
	} else {
		t.stopped = true
		for i, x := range s.timers {
			if x == t {
				s.timers = append(s.timers[:i], s.timers[i+1:]...)
				break
			}
		}
	}
	s.mu.Unlock()
	if t.Period > 0 {
		if h := OnTick; h != nil {
			h(t.Label)
		}
	}
	t.fire(now)
}

// FireTicker fires the first live periodic timer whose label contains match (explorer goroutine only:
// inside a Choice's Fn). It reports whether one was found. Scenarios use it to place a tick at a chosen
// stage instead of offering it at every decision (Bounds.Tickers).
func FireTicker(match string) bool {
	s.mu.Lock()
	var t *Timer
	for _, x := range s.timers {
		if x.Period > 0 && !x.stopped && strings.Contains(x.Label, match) {
			t = x
			break
		}
	}
	s.mu.Unlock()
	if t == nil {
		return false
	}
	fireTimer(t)
	return true
}

// OnTick, when set, is told about every firing of a periodic virtual timer (ticker) before the
// ticker's channel receives the tick. Harness worlds use it to place ticks in their event logs.
var OnTick func(label string)

// ---- quiescence ----

var (
	msamples = []metrics.Sample{
		{Name: "/sched/goroutines/runnable:goroutines"},
		{Name: "/sched/goroutines/not-in-go:goroutines"},
	}
	// QuiesceSpins counts Gosched rounds, for diagnostics.
	QuiesceSpins int64
	// Paranoid makes every quiescence decision be cross-checked by a stack snapshot.
	Paranoid = os.Getenv("VERIF_PARANOID") != ""
	// AuditMismatch counts disagreements between the metrics and the stack snapshot.
	AuditMismatch int
	audits        int
)

// Quiesce returns when no goroutine other than the caller can run: everything
// else is parked at a seam, blocked on another goroutine, or finished.
// Returns false if that state was not reached within the spin budget
// (something busy-loops or sits in a system call).
func Quiesce() bool {
	stable := 0
	for i := 0; i < 2000000; i++ {
		runtime.Gosched()
		QuiesceSpins++
		metrics.Read(msamples)
		if msamples[0].Value.Uint64() == 0 && msamples[1].Value.Uint64() == 0 {
			stable++
			if stable >= 2 {
				audits++
				if Paranoid || audits%256 == 0 {
					if !stackAudit() {
						AuditMismatch++
						stable = 0
						continue
					}
				}
				return true
			}
		} else {
			stable = 0
			if i > 20000 && i%1000 == 0 {
				time.Sleep(50 * time.Microsecond) // let a syscall finish
			}
		}
	}
	return false
}

// stackAudit checks with a full stack snapshot that no other goroutine is
// runnable / running / in a syscall.
func stackAudit() bool {
	buf := make([]byte, 1<<20)
	for {
		n := runtime.Stack(buf, true)
		if n < len(buf) {
			buf = buf[:n]
			break
		}
		buf = make([]byte, 2*len(buf))
	}
	first := true
	for _, blk := range strings.Split(string(buf), "\n\n") {
		if !strings.HasPrefix(blk, "goroutine ") {
			continue
		}
		hdr := blk[:strings.IndexByte(blk, '\n')]
		if first { // the caller itself
			first = false
			continue
		}
		if strings.Contains(hdr, "[runnable") || strings.Contains(hdr, "[running") || strings.Contains(hdr, "[syscall") {
			return false
		}
	}
	return true
}

// ---- teardown ----

// Close ends the controlled execution: every parked goroutine is released
// with an Abort decision and later Points return Abort immediately; timers
// are dropped.
func Close() {
	s.mu.Lock()
	s.closing = true
	p := s.pending
	pk := s.parked
	s.pending = nil
	s.parked = nil
	s.timers = nil
	s.mu.Unlock()
	for _, e := range p {
		e.ch <- Decision{Kind: Abort}
	}
	for _, ch := range pk {
		close(ch)
	}
	// closing stays set until the next Reset: goroutines left over from this execution must
	// never register events or timers in the next one (see Closing)
}

// Closing reports whether the last execution is being / has been torn down. Shims then make
// every sleep and timer elapse at once so that leftover goroutines run into their cancelled
// contexts / error returns and finish quickly instead of waking up inside the next execution.
func Closing() bool {
	s.mu.Lock()
	defer s.mu.Unlock()
	return s.closing
}

// Drain waits until the leftover goroutines of a torn-down execution have stopped running.
func Drain() bool { return Quiesce() }

// snapshot returns the pending events in canonical order (by arrival window,
// then label, then arrival) and the timers sorted by (deadline, id).
func snapshot() ([]*Event, []*Timer) {
	s.mu.Lock()
	defer s.mu.Unlock()
	s.batch++
	ev := make([]*Event, 0, len(s.pending))
	for _, e := range s.pending {
		if !s.dead[e.Actor] {
			ev = append(ev, e)
		}
	}
	sort.SliceStable(ev, func(i, j int) bool {
		if ev[i].batch != ev[j].batch {
			return ev[i].batch < ev[j].batch
		}
		if ev[i].Label != ev[j].Label {
			return ev[i].Label < ev[j].Label
		}
		return ev[i].seq < ev[j].seq
	})
	tm := append([]*Timer{}, s.timers...)
	sort.SliceStable(tm, func(i, j int) bool {
		if tm[i].Deadline != tm[j].Deadline {
			return tm[i].Deadline < tm[j].Deadline
		}
		return tm[i].id < tm[j].id
	})
	return ev, tm
}

// release hands a decision to a parked event.
func release(e *Event, d Decision) {
	s.mu.Lock()
	for i, x := range s.pending {
		if x == e {
			s.pending = append(s.pending[:i], s.pending[i+1:]...)
			break
		}
	}
	s.mu.Unlock()
	e.ch <- d
}

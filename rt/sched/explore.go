package sched

import (
	"fmt"
	"os"
	"hash/fnv"
	"sort"
	"strings"
	"time"
)

// Choice is one enabled explorer transition at a decision point.
type Choice struct {
	Key   string // identity used for replay (stable across runs)
	Actor int    // -1 for environment transitions
	PCost int    // preemption cost
	FCost int    // fault / deviation cost
	ev    *Event
	dec   Decision
	timer *Timer
	Fn    func() // environment transition executed by the explorer goroutine
}

// Dev is a deviation offered for a pending event (besides plain delivery).
type Dev struct {
	Name  string
	Kind  int // Decision.Kind handed to the parked goroutine (>0)
	Arg   any
	FCost int // default 1
}

// Scenario closes the system: it builds the world, offers environment menus
// and judges finished executions.
type Scenario interface {
	Name() string
	// Setup builds a fresh world and starts the driver goroutines with Go.
	Setup()
	// Menu returns the deviations available for a pending event under the given
	// remaining fault budget (may be nil).
	Menu(e *Event) []Dev
	// Extra returns environment transitions that are not tied to one event.
	Extra() []Choice
	// StateKey returns a canonical key of the current global state for pruning, or "" to disable.
	StateKey() string
	// Check judges the finished execution.
	Check(x *Exec) []Violation
	// Teardown releases the world (after sched.Close).
	Teardown()
}

// Violation is reported by Scenario.Check.
type Violation struct {
	Key  string
	What string
}

// Step is one decision of an execution.
type Step struct {
	Enabled []ChoiceInfo
	Chosen  int
	PUsed   int // cumulative before this step
	FUsed   int
}

// ChoiceInfo is the recorded part of a Choice.
type ChoiceInfo struct {
	Key   string
	Actor int
	P, F  int
}

// Exec is one finished execution.
type Exec struct {
	Steps     []Step
	Trace     []string // chosen keys
	Deadlock  bool     // quiescent, nothing enabled, drivers unfinished
	Horizon   bool     // decision cap reached
	Diverged  bool     // replay could not follow the prefix
	NoQuiesce bool
	Pruned    bool
	Panics    []string
	PUsed     int
	FUsed     int
}

// Bounds of an exploration.
type Bounds struct {
	P, F        int
	Horizon     int   // max decisions per execution
	MaxExec     int64 // cap on executions (0 = none)
	EarlyTimers bool  // offer firing the earliest timer while plain events are enabled (costs 1 preemption)
	Tickers     bool  // offer firing tickers (costs 1 fault)
	TickerMatch string // only tickers whose label contains this
	Deadline    time.Time
	// PerActorFIFO: when set, only the oldest pending event of each actor is offered
	// (events of one actor are delivered in canonical order).
	PerActorFIFO bool
}

// Report of an exploration.
type Report struct {
	Scenario     string
	Executions   int64
	Transitions  int64
	States       int64 // distinct state keys seen (0 if the scenario has no state key)
	Nodes        int64 // distinct nodes of the choice tree visited (decision points beyond the replayed prefix)
	Pruned       int64
	Diverged     int64
	Deadlocks    int64
	Horizons     int64
	NoQuiesce    int64
	Capped       bool
	TimedOut     bool
	MaxDepth     int
	Outcomes     map[string]int64
	Violations   []FoundViolation
	SampleTraces [][]string
}

// FoundViolation carries the replayable trace.
type FoundViolation struct {
	Key   string
	What  string
	Trace []string
	Count int
}

// Explorer performs the deviation-bounded depth-first search.
type Explorer struct {
	Sc      Scenario
	B       Bounds
	Outcome func(x *Exec) string // optional classification of executions (distinct outcome count)
	visited map[uint64][2]int
	rep     Report
	viol    map[string]*FoundViolation
}

func hash64(s string) uint64 {
	h := fnv.New64a()
	h.Write([]byte(s))
	return h.Sum64()
}

// choices builds the canonical enabled list.
func (x *Explorer) choices(last int) []Choice {
	evs, tms := snapshot()
	var out []Choice
	// group by actor
	byActor := map[int][]*Event{}
	var actors []int
	for _, e := range evs {
		if _, ok := byActor[e.Actor]; !ok {
			actors = append(actors, e.Actor)
		}
		byActor[e.Actor] = append(byActor[e.Actor], e)
	}
	sort.Ints(actors)
	lastEnabled := false
	if _, ok := byActor[last]; ok {
		lastEnabled = true
		// move last to front
		na := []int{last}
		for _, a := range actors {
			if a != last {
				na = append(na, a)
			}
		}
		actors = na
	}
	occ := map[string]int{}
	mkKey := func(base string) string {
		occ[base]++
		if occ[base] > 1 {
			return fmt.Sprintf("%s#%d", base, occ[base])
		}
		return base
	}
	var devs []Choice
	for ai, a := range actors {
		for ei, e := range byActor[a] {
			if x.B.PerActorFIFO && ei > 0 {
				break
			}
			p := 0
			if lastEnabled {
				if !(ai == 0 && ei == 0) {
					p = 1
				}
			} else if ei > 0 {
				p = 1
			}
			base := e.String()
			out = append(out, Choice{Key: mkKey(base), Actor: a, PCost: p, ev: e})
			for _, d := range x.Sc.Menu(e) {
				fc := d.FCost
				if fc == 0 {
					fc = 1
				}
				devs = append(devs, Choice{Key: mkKey(base + "!" + d.Name), Actor: a, PCost: p, FCost: fc, ev: e, dec: Decision{Kind: d.Kind, Arg: d.Arg}})
			}
		}
	}
	plain := len(out)
	// timers
	for _, t := range tms {
		if t.Period > 0 {
			if x.B.Tickers && (x.B.TickerMatch == "" || strings.Contains(t.Label, x.B.TickerMatch)) {
				devs = append(devs, Choice{Key: mkKey("tick:" + t.Label), Actor: -1, FCost: 1, timer: t})
			}
			continue
		}
		if plain == 0 {
			out = append(out, Choice{Key: mkKey("timer:" + t.Label), Actor: -1, timer: t})
		} else if x.B.EarlyTimers {
			devs = append(devs, Choice{Key: mkKey("timer:" + t.Label), Actor: -1, PCost: 1, timer: t})
		}
		break // only the earliest one-shot timer may fire
	}
	out = append(out, devs...)
	for _, c := range x.Sc.Extra() {
		c.Key = mkKey("env:" + c.Key)
		c.Actor = -1
		out = append(out, c)
	}
	return out
}

// runOne executes one execution following prefix (choice keys), then choice 0.
func (x *Explorer) runOne(prefix []string) *Exec {
	ex := &Exec{}
	Reset()
	BeginSetup()
	x.Sc.Setup()
	EndSetup()
	last := -1
	p, f := 0, 0
	for {
		if !Quiesce() {
			ex.NoQuiesce = true
			break
		}
		i := len(ex.Steps)
		if i >= x.B.Horizon {
			ex.Horizon = true
			break
		}
		cs := x.choices(last)
		if len(cs) == 0 {
			if Running() > 0 {
				ex.Deadlock = true
			}
			break
		}
		idx := 0
		if i < len(prefix) {
			idx = -1
			for k, c := range cs {
				if c.Key == prefix[i] {
					idx = k
					break
				}
			}
			if idx < 0 {
				ex.Diverged = true
				if os.Getenv("VERIF_DEBUG") != "" {
					var ks []string
					for _, c := range cs {
						ks = append(ks, c.Key)
					}
					fmt.Fprintf(os.Stderr, "DIVERGED at %d: want %q have %v\n  prefix %v\n", i, prefix[i], ks, prefix)
				}
				break
			}
		} else {
			// default continuation: the first enabled choice that still fits the budgets
			idx = -1
			for k, c := range cs {
				if p+c.PCost <= x.B.P && f+c.FCost <= x.B.F {
					idx = k
					break
				}
			}
			if idx < 0 {
				if Running() > 0 {
					ex.Deadlock = true
				}
				break
			}
		}
		if i >= len(prefix) && x.visited != nil {
			if sk := x.Sc.StateKey(); sk != "" {
				var sb strings.Builder
				sb.WriteString(sk)
				sb.WriteString("|last=")
				sb.WriteString(fmt.Sprint(last))
				for _, c := range cs {
					sb.WriteString("|")
					sb.WriteString(c.Key)
				}
				h := hash64(sb.String())
				rem := [2]int{x.B.P - p, x.B.F - f}
				if old, ok := x.visited[h]; ok && old[0] >= rem[0] && old[1] >= rem[1] {
					ex.Pruned = true
					break
				} else if !ok {
					x.rep.States++
					x.visited[h] = rem
				} else {
					// keep the componentwise max only if one dominates; otherwise keep the newer (conservative: re-explore)
					if rem[0] >= old[0] && rem[1] >= old[1] {
						x.visited[h] = rem
					}
				}
			}
		}
		st := Step{Chosen: idx, PUsed: p, FUsed: f}
		for _, c := range cs {
			st.Enabled = append(st.Enabled, ChoiceInfo{c.Key, c.Actor, c.PCost, c.FCost})
		}
		ex.Steps = append(ex.Steps, st)
		c := cs[idx]
		ex.Trace = append(ex.Trace, c.Key)
		p += c.PCost
		f += c.FCost
		switch {
		case c.ev != nil:
			last = c.Actor
			release(c.ev, c.dec)
		case c.timer != nil:
			fireTimer(c.timer)
		case c.Fn != nil:
			c.Fn()
		}
		x.rep.Transitions++
	}
	ex.PUsed, ex.FUsed = p, f
	ex.Panics = Panics()
	return ex
}

// finish tears the world down.
func (x *Explorer) finish() {
	Close()
	Drain() // leftovers that were past a seam finish their store call before the world is closed
	x.Sc.Teardown()
	Drain()
}

// Explore runs the whole bounded search for the scenario.
func (x *Explorer) Explore(prune bool) Report {
	x.rep = Report{Scenario: x.Sc.Name(), Outcomes: map[string]int64{}}
	x.viol = map[string]*FoundViolation{}
	if prune {
		x.visited = map[uint64][2]int{}
	}
	stack := [][]string{nil}
	for len(stack) > 0 {
		if x.B.MaxExec > 0 && x.rep.Executions >= x.B.MaxExec {
			x.rep.Capped = true
			break
		}
		if !x.B.Deadline.IsZero() && time.Now().After(x.B.Deadline) {
			x.rep.TimedOut = true
			break
		}
		prefix := stack[len(stack)-1]
		stack = stack[:len(stack)-1]
		ex := x.runOne(prefix)
		if ex.Diverged {
			// retry a few times: residual nondeterminism (map order) may reorder arrivals
			for r := 0; r < 80 && ex.Diverged; r++ {
				x.finish()
				ex = x.runOne(prefix)
			}
		}
		x.rep.Executions++
		if n := len(ex.Steps) - len(prefix) + 1; n > 0 && !ex.Diverged {
			x.rep.Nodes += int64(n)
		}
		if len(ex.Steps) > x.rep.MaxDepth {
			x.rep.MaxDepth = len(ex.Steps)
		}
		switch {
		case ex.Diverged:
			x.rep.Diverged++
		case ex.NoQuiesce:
			x.rep.NoQuiesce++
		case ex.Pruned:
			x.rep.Pruned++
		default:
			if ex.Deadlock {
				x.rep.Deadlocks++
			}
			if ex.Horizon {
				x.rep.Horizons++
			}
			vs := x.Sc.Check(ex)
			for _, p := range ex.Panics {
				vs = append(vs, Violation{Key: "panic", What: p})
			}
			for _, v := range vs {
				if fv, ok := x.viol[v.Key]; ok {
					fv.Count++
					if len(ex.Trace) < len(fv.Trace) {
						fv.Trace, fv.What = append([]string{}, ex.Trace...), v.What
					}
				} else {
					x.viol[v.Key] = &FoundViolation{Key: v.Key, What: v.What, Trace: append([]string{}, ex.Trace...), Count: 1}
				}
			}
			if x.Outcome != nil {
				x.rep.Outcomes[x.Outcome(ex)]++
			}
			if len(x.rep.SampleTraces) < 2 || (len(ex.Trace) > 0 && x.rep.Executions%997 == 0 && len(x.rep.SampleTraces) < 4) {
				x.rep.SampleTraces = append(x.rep.SampleTraces, append([]string{}, ex.Trace...))
			}
		}
		x.finish()
		if ex.Diverged || ex.NoQuiesce {
			continue
		}
		// expand alternatives at every decision beyond the prefix (deepest first on the stack => DFS)
		for i := len(prefix); i < len(ex.Steps); i++ {
			st := ex.Steps[i]
			for alt := len(st.Enabled) - 1; alt >= 0; alt-- {
				if alt == st.Chosen {
					continue
				}
				c := st.Enabled[alt]
				if st.PUsed+c.P > x.B.P || st.FUsed+c.F > x.B.F {
					continue
				}
				np := make([]string, i+1)
				copy(np, ex.Trace[:i])
				np[i] = c.Key
				stack = append(stack, np)
			}
		}
	}
	keys := make([]string, 0, len(x.viol))
	for k := range x.viol {
		keys = append(keys, k)
	}
	sort.Strings(keys)
	for _, k := range keys {
		x.rep.Violations = append(x.rep.Violations, *x.viol[k])
	}
	return x.rep
}

// Replay runs one trace n times and returns the violations of each run
// (used to confirm that a counterexample is deterministic).
func (x *Explorer) Replay(trace []string, n int) [][]Violation {
	var out [][]Violation
	for i := 0; i < n; i++ {
		ex := x.runOne(trace)
		var vs []Violation
		if ex.Diverged {
			vs = []Violation{{Key: "diverged", What: "replay diverged"}}
		} else {
			vs = x.Sc.Check(ex)
			for _, p := range ex.Panics {
				vs = append(vs, Violation{Key: "panic", What: p})
			}
		}
		out = append(out, vs)
		x.finish()
	}
	return out
}

# Build environment shared by setup and checks (see DESIGN.md section 2).
# GOSUMDB is left alone on purpose; GOTOOLCHAIN=local pins go1.26.8.
export GOFLAGS=-mod=mod GOPROXY=off GOTOOLCHAIN=local CARGO_NET_OFFLINE=true
GO=go1.26.8

#!/bin/bash
# Creates go.mod/go.sum of the txn-context harness module from /repo/integration_tests
# (same dependency set, so everything resolves from the module cache offline).
set -e
REPO="${1:-/repo}"
D="$(cd "$(dirname "$0")" && pwd)"
TMP="$D/go.mod.$$"
sed -e 's#^module integration_tests#module veriftxn#' \
    -e "s#github.com/tikv/client-go/v2 => ../#github.com/tikv/client-go/v2 => $REPO#" \
    "$REPO/integration_tests/go.mod" > "$TMP"
if ! cmp -s "$TMP" "$D/go.mod" 2>/dev/null; then mv "$TMP" "$D/go.mod"; else rm -f "$TMP"; fi
if ! cmp -s "$REPO/integration_tests/go.sum" "$D/go.sum" 2>/dev/null; then cp "$REPO/integration_tests/go.sum" "$D/go.sum"; fi

package common

import (
	"fmt"
	"os"

	"github.com/pingcap/kvproto/pkg/kvrpcpb"
	"github.com/tikv/client-go/v2/verifrt/sched"
	"github.com/tikv/client-go/v2/verifrt/txnh"
)

// PrimaryOf finds the primary key the transaction named in its prewrites / pessimistic locks.
func PrimaryOf(log []txnh.RPCRecord, startTS uint64) string {
	for _, r := range log {
		switch q := r.Req.Req.(type) {
		case *kvrpcpb.PrewriteRequest:
			if q.StartVersion == startTS {
				return string(q.PrimaryLock)
			}
		case *kvrpcpb.PessimisticLockRequest:
			if q.StartVersion == startTS {
				return string(q.PrimaryLock)
			}
		}
	}
	return ""
}

// VictimVerdict is what the audit learned about the victim.
type VictimVerdict struct {
	Committed bool
	CommitTS  uint64
	Keys      []string // keys carrying a version of the victim
}

// AuditVictim checks the truthfulness / atomicity rules shared by C02 and C03 for transaction
// index vi of the history, after all leftover locks have been driven to their outcome.
// ackOutcome is the outcome the client had been told at the moment that matters
// ("open" = nothing was acknowledged).
func AuditVictim(s *txnh.TxnScenario, x *sched.Exec, vi int, prefix string) ([]sched.Violation, *VictimVerdict, *txnh.Truth) {
	return AuditVictimR(s, x, vi, prefix, "reader-gc")
}

// AuditVictimR is AuditVictim with a chosen recovery variant (see txnh.ForceResolve).
func AuditVictimR(s *txnh.TxnScenario, x *sched.Exec, vi int, prefix, variant string) ([]sched.Violation, *VictimVerdict, *txnh.Truth) {
	var out []sched.Violation
	add := func(key, format string, a ...any) {
		out = append(out, sched.Violation{Key: prefix + key, What: fmt.Sprintf(format, a...)})
	}
	v := s.H.Txns[vi]
	if v.StartTS == 0 {
		return nil, nil, nil
	}
	rc := txnh.ForceResolve(s.W, s.Keys, variant)
	t := txnh.ReadTruth(s.W.B, s.Keys)
	t.Log = s.W.Log()
	// the recovery reader's snapshot must equal the final MVCC state at its timestamp
	// (in particular: all or none of the victim's keys)
	if rc.ReadTS != 0 {
		for _, k := range s.Keys {
			if _, bad := rc.Failed[k]; bad {
				continue
			}
			ev, eok := t.VisibleAt(k, rc.ReadTS)
			gv, gok := rc.Got[k]
			if ev != gv || eok != gok {
				add("recovery-read-inconsistent", "%s (start=%d): recovery reader at ts %d saw %s=(%q,%v) but the final state at that ts is (%q,%v); versions %v", v.Prog, v.StartTS, rc.ReadTS, k, gv, gok, ev, eok, t.Versions[k])
			}
		}
	}
	if os.Getenv("VERIF_DEBUG") != "" {
		for _, r := range t.Log {
			fmt.Fprintf(os.Stderr, "  #%d c%d %s dev=%d err=%v resp=%v\n", r.Seq, r.Client, r.Label, r.Dev, r.Err, respStr(r))
		}
		fmt.Fprintf(os.Stderr, "  recovery: %+v\n", rc)
	}
	for _, l := range rc.Left {
		if l.StartTS == v.StartTS {
			add("lock-never-resolved", "%s (start=%d): lock on %s is still there after TTL expiry + reader + GC resolution", v.Prog, v.StartTS, l.Key)
		}
	}
	vd := &VictimVerdict{}
	cts := map[uint64]bool{}
	for _, k := range s.Keys {
		for _, ver := range t.Versions[k] {
			if ver.StartTS == v.StartTS && ver.Type != "rollback" {
				vd.Keys = append(vd.Keys, k)
				cts[ver.CommitTS] = true
				vd.CommitTS = ver.CommitTS
			}
		}
	}
	vd.Committed = len(vd.Keys) > 0
	if len(cts) > 1 {
		add("two-commit-ts", "%s (start=%d) is committed with different commit timestamps %v", v.Prog, v.StartTS, cts)
	}
	// atomicity: every key the transaction wrote (put/delete) carries its version, or none does
	var want []string
	for k, w := range v.Writes {
		if w.Del && w.Insert {
			continue // insert-then-delete writes nothing
		}
		want = append(want, k)
	}
	if vd.Committed {
		for _, k := range want {
			found := false
			for _, kk := range vd.Keys {
				if kk == k {
					found = true
				}
			}
			if !found {
				add("partial-commit", "%s (start=%d): committed on %v but key %s has no version of it (final state after resolution)", v.Prog, v.StartTS, vd.Keys, k)
			}
		}
	}
	switch v.Outcome {
	case "committed":
		if !vd.Committed && len(want) > 0 {
			add("ack-success-but-not-committed", "Commit of %s (start=%d) returned nil but no key carries its version", v.Prog, v.StartTS)
		}
	case "failed", "rolledback":
		if vd.Committed {
			add("ack-failure-but-committed", "%s (start=%d) ended with %s %q but is committed on %v at %d", v.Prog, v.StartTS, v.Outcome, v.CommitErr, vd.Keys, vd.CommitTS)
		}
	}
	return out, vd, t
}

func respStr(r txnh.RPCRecord) string {
	if r.Resp == nil || r.Resp.Resp == nil {
		return "<nil>"
	}
	s := fmt.Sprint(r.Resp.Resp)
	if len(s) > 200 {
		s = s[:200]
	}
	return s
}

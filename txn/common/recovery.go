package common

import (
	"context"
	"fmt"
	"time"

	"github.com/pingcap/kvproto/pkg/kvrpcpb"
	"github.com/tikv/client-go/v2/tikv"

	"github.com/tikv/client-go/v2/tikvrpc"
	"github.com/tikv/client-go/v2/verifrt/sched"
	"github.com/tikv/client-go/v2/verifrt/txnh"
)

// GCDone / GCErr: outcome of the GC actor of the current execution (ExploredRecoveryWith "gc").
var (
	GCDone bool
	GCErr  error
)

// ExploredRecoveryScenario: a 3-key victim crashes at an enumerated seam event; then its locks expire
// and a reader arrives as an explored actor (the answers to its resolver's concurrent status checks can
// be delivered in any order within the preemption budget).
type ExploredRecoveryScenario struct {
	Name   string
	Splits []string
	Make   func() *txnh.TxnScenario // CheckFn is left to the caller
}

// ExploredRecovery builds the scenario table (backends x optimistic commit modes x {3 regions, 1 region}).
func ExploredRecovery(thorough bool, keys []string) []ExploredRecoveryScenario {
	return ExploredRecoveryWith(thorough, keys, "reader")
}

// ExploredRecoveryWith: the recovering actor is a batch-get reader ("reader") or GC's lock resolution
// over the whole key space at a fresh safe point ("gc"; its outcome is left in GCErr / GCDone).
func ExploredRecoveryWith(thorough bool, keys []string, actor string) []ExploredRecoveryScenario {
	var out []ExploredRecoveryScenario
	for _, bk := range BackendsTier(thorough) {
		for _, m := range bk.Modes {
			if m.Pessimistic {
				continue
			}
			for _, lo := range []Layout{{Name: "split@b,c", Splits: []string{"b", "c"}}, {Name: "1region"}} {
				bk, m, lo := bk, m, lo
				ops := []txnh.Op{{Kind: "set", Key: "a"}, {Kind: "set", Key: "b"}, {Kind: "set", Key: "c"}, {Kind: "commit"}}
				name := fmt.Sprintf("%s/%s/%s/set(a);set(b);set(c)/recovery=explored-%s", bk.Name, lo.Name, m, actor)
				mk := func() *txnh.TxnScenario {
					started, conflicted := false, false
					sc := &txnh.TxnScenario{ID: name, NewBackend: func() txnh.Backend { return bk.New(lo.Splits) }, Keys: keys,
						Progs: [][]txnh.Program{{{Mode: m, Ops: ops}}}}
					sc.SetupFn = func(s *txnh.TxnScenario) { started, conflicted = false, false }
					sc.MenuFn = func(s *txnh.TxnScenario, e *sched.Event) []sched.Dev {
						if e.Actor != 0 && started && e.Kind == sched.KRPC {
							// the recovering reader: a region split right before one of its status-check /
							// resolve RPCs (its region cache is then stale: EpochNotMatch, batches are regrouped)
							req, _ := e.Payload.(*tikvrpc.Request)
							if req != nil && req.Type == tikvrpc.CmdCheckSecondaryLocks && len(lo.Splits) == 0 {
								var ds []sched.Dev
								for _, k := range []string{"c"} {
									k := k
									ds = append(ds, sched.Dev{Name: "split@" + k, Kind: txnh.DevHook, Arg: func() { s.W.B.SplitAt([]byte(k)) }})
								}
								return ds
							}
							return nil
						}
						if e.Actor != 0 || s.W.Crashed(0) {
							return nil
						}
						if actor == "reader-after-failed-commit" {
							// no crash: the store answers one prewrite with a write conflict (a definite failure of
							// Commit); the committer's asynchronous clean-up then races with the reader
							req, _ := e.Payload.(*tikvrpc.Request)
							if e.Kind == sched.KRPC && req != nil && req.Type == tikvrpc.CmdPrewrite && !conflicted {
								return []sched.Dev{{Name: "answer-write-conflict", Kind: txnh.DevAnswer, Arg: func(r *tikvrpc.Request) *tikvrpc.Response {
									conflicted = true
									q := r.Prewrite()
									k := q.Mutations[len(q.Mutations)-1].Key
									return &tikvrpc.Response{Resp: &kvrpcpb.PrewriteResponse{Errors: []*kvrpcpb.KeyError{{Conflict: &kvrpcpb.WriteConflict{
										StartTs: q.StartVersion, ConflictTs: q.StartVersion + 1, ConflictCommitTs: q.StartVersion + 2, Key: k, Primary: q.PrimaryLock,
										Reason: kvrpcpb.WriteConflict_Optimistic}}}}}
								}}}
							}
							return nil
						}
						switch e.Kind {
						case sched.KRPC:
							return []sched.Dev{{Name: "crash-undelivered", Kind: txnh.DevCrash}, {Name: "crash-delivered", Kind: txnh.DevCrashDlv}}
						case sched.KTSO:
							return []sched.Dev{{Name: "crash", Kind: txnh.DevCrash}}
						}
						return nil
					}
					sc.ExtraFn = func(s *txnh.TxnScenario) []sched.Choice {
						if started {
							return nil
						}
						if actor == "reader-after-failed-commit" {
							// the reader may arrive as soon as Commit has returned its (definite) error, while the
							// committer's clean-up is still on its way
							if o := s.H.Txns[0].Outcome; !conflicted || (o != "failed" && o != "rolledback") {
								return nil
							}
						} else if !s.W.Crashed(0) {
							return nil
						}
						if actor == "gc" {
							return []sched.Choice{{Key: "expire+gc", Fn: func() {
								started = true
								sched.Advance(time.Hour)
								var c *txnh.Client
								sched.Sync(func() { c = s.W.AddClient() })
								GCDone, GCErr = false, nil
								sched.Go("gc", func() {
									sp, err := c.Store.CurrentTimestamp("global")
									if err == nil {
										_, err = tikv.ResolveLocksForRange(context.Background(), tikv.NewRegionLockResolver("verif-gc", c.Store), sp, nil, nil, tikv.NewGcResolveLockMaxBackoffer, 16)
									}
									GCErr, GCDone = err, true
								})
							}}}
						}
						return []sched.Choice{{Key: "expire+reader", Fn: func() {
							started = true
							sched.Advance(25 * time.Second)
							var c *txnh.Client
							sched.Sync(func() { c = s.W.AddClient() })
							progs := []txnh.Program{{Ops: []txnh.Op{{Kind: "bget", Keys: keys}, {Kind: "commit"}}}}
							recs := txnh.NewRecs(s.H, c.ID, progs)
							sched.Go("reader", func() { c.RunPrograms(s.H, progs, recs) })
						}}}
					}
					return sc
				}
				out = append(out, ExploredRecoveryScenario{Name: name, Splits: lo.Splits, Make: mk})
			}
		}
	}
	return out
}

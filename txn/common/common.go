// Package common holds what the transactional check mains share: backend
// table, replay handling, merging of worker reports into the evidence file.
package common

import (
	"context"
	"encoding/json"
	"fmt"
	"os"
	"os/exec"
	"runtime"
	"sort"
	"strings"

	"github.com/tikv/client-go/v2/verifrt/ev"
	"github.com/tikv/client-go/v2/verifrt/sched"
	"github.com/tikv/client-go/v2/verifrt/txnh"
)

// BackendSpec describes a store backend and the commit modes it implements.
type BackendSpec struct {
	Name  string
	Modes []txnh.Mode
	New   func(splits []string) txnh.Backend
}

var extraBackends []BackendSpec

// Register adds a backend (unistore registers itself from its own file).
func Register(b BackendSpec) { extraBackends = append(extraBackends, b) }

// BackendsTier returns the backend table for a tier: in the quick tier unistore is used only for
// the commit modes the in-repo mock lacks (async commit, one-phase commit); thorough uses all six.
func BackendsTier(thorough bool) []BackendSpec {
	bs := Backends()
	if thorough {
		return bs
	}
	for i := range bs {
		if bs[i].Name != "unistore" {
			continue
		}
		var ms []txnh.Mode
		for _, m := range bs[i].Modes {
			if (m.Async || m.OnePC) && !(m.Pessimistic && m.OnePC) {
				ms = append(ms, m)
			}
		}
		bs[i].Modes = ms
	}
	return bs
}

// ModesWithDeclined returns the backend's commit modes plus, for the in-repo mock, the async-commit and
// one-phase-commit request modes: the mock implements neither and ignores the request flags, which
// the client has to treat as "the store declined" and fall back to ordinary 2PC (TiKV may decline as
// well). The fall-back paths are reachable in no other way.
func ModesWithDeclined(bk BackendSpec) []txnh.Mode {
	ms := append([]txnh.Mode{}, bk.Modes...)
	if bk.Name == "mocktikv" {
		ms = append(ms, txnh.Mode{OnePC: true}, txnh.Mode{Async: true})
	}
	return ms
}

// Backends returns the table of store backends.
func Backends() []BackendSpec {
	out := []BackendSpec{{
		Name:  "mocktikv",
		Modes: []txnh.Mode{{}, {Pessimistic: true}},
		New:   func(splits []string) txnh.Backend { return txnh.NewMockBackend(1, splits...) },
	}}
	if os.Getenv("VERIF_NO_UNISTORE") == "" {
		out = append(out, extraBackends...)
	}
	return out
}

// SeedKey commits key=val through an extra client during Setup (seam points pass through).
func SeedKey(s *txnh.TxnScenario, kvs ...string) {
	c := s.W.AddClient()
	txn, err := c.Store.Begin()
	if err != nil {
		panic(err)
	}
	for i := 0; i+1 < len(kvs); i += 2 {
		if err := txn.Set([]byte(kvs[i]), []byte(kvs[i+1])); err != nil {
			panic(err)
		}
	}
	if err := txn.Commit(context.Background()); err != nil {
		panic(fmt.Sprintf("seed commit: %v", err))
	}
}

type replayFile struct {
	Property string `json:"property"`
	Key      string `json:"key"`
	Replay   struct {
		Scenario string   `json:"scenario"`
		Trace    []string `json:"trace"`
	} `json:"replay"`
}

// Replaying is set while HandleReplay re-runs a stored schedule (scenario-level memoisation must be off then).
var Replaying bool

// HandleReplay implements `--replay <file>`: re-runs the stored schedule 5 times in this
// process (GOMAXPROCS=1) and reports whether the violation reproduces. Returns true if handled.
func HandleReplay(run *ev.Run, jobs []sched.Job, find func(name string) sched.Scenario, b sched.Bounds) bool {
	file := ""
	confirm := false
	for i, a := range os.Args {
		if a == "--replay" && i+1 < len(os.Args) {
			file = os.Args[i+1]
		}
		if a == "--confirm" {
			confirm = true
		}
	}
	if file == "" {
		return false
	}
	runtime.GOMAXPROCS(1)
	Replaying = true
	raw, err := os.ReadFile(file)
	if err != nil {
		fmt.Fprintln(os.Stderr, err)
		os.Exit(2)
	}
	var rf replayFile
	if err := json.Unmarshal(raw, &rf); err != nil {
		fmt.Fprintln(os.Stderr, err)
		os.Exit(2)
	}
	sc := find(rf.Replay.Scenario)
	if sc == nil {
		fmt.Fprintf(os.Stderr, "replay: scenario %q not in the table\n", rf.Replay.Scenario)
		os.Exit(2)
	}
	x := &sched.Explorer{Sc: sc, B: b}
	res := x.Replay(rf.Replay.Trace, 5)
	hits := 0
	for _, vs := range res {
		for _, v := range vs {
			if v.Key == rf.Key {
				hits++
				if !confirm && hits == 1 {
					fmt.Printf("replay: %s: %s\n", v.Key, v.What)
				}
				break
			}
		}
	}
	fmt.Printf("REPLAY-RESULT hits=%d runs=%d\n", hits, len(res))
	if confirm {
		os.Exit(0)
	}
	if hits > 0 {
		fmt.Printf("VIOLATION property=%s replay=%s\n", rf.Property, file)
		os.Exit(1)
	}
	os.Exit(0)
	return true
}

// FinishOpts are the descriptive parts of the evidence.
type FinishOpts struct {
	Bounds      map[string]any
	Rule        string
	Assumptions []string
	// KeyOf maps a raw violation key to the stable known-findings key (default: identity)
	KeyOf func(k string) string
}

// confirm re-runs a violation's schedule in a fresh GOMAXPROCS=1 process; it
// must fail in all 5 runs to be believed.
func confirm(property, key, scenario string, trace []string) (bool, string) {
	dir, err := os.MkdirTemp("", "verif-confirm-")
	if err != nil {
		return true, ""
	}
	defer os.RemoveAll(dir)
	f := dir + "/r.json"
	b, _ := json.Marshal(map[string]any{"property": property, "key": key, "replay": map[string]any{"scenario": scenario, "trace": trace}})
	os.WriteFile(f, b, 0o644)
	exe, _ := os.Executable()
	cmd := exec.Command(exe, "--replay", f, "--confirm")
	cmd.Env = append(os.Environ(), "GOMAXPROCS=1", "VERIF_WORKER=")
	out, _ := cmd.CombinedOutput()
	var hits, runs int
	for _, line := range strings.Split(string(out), "\n") {
		if strings.HasPrefix(line, "REPLAY-RESULT") {
			fmt.Sscanf(line, "REPLAY-RESULT hits=%d runs=%d", &hits, &runs)
		}
	}
	return runs > 0 && hits == runs, fmt.Sprintf("hits=%d/%d", hits, runs)
}

// Finish merges the worker reports, confirms violations by replay, writes evidence and exits.
func Finish(run *ev.Run, jobs []sched.Job, res sched.ShardResult, o FinishOpts) {
	m := sched.MergeReports(res.Reports)
	if res.Unstarted > 0 {
		run.Incomplete(fmt.Sprintf("%d of %d scenarios not started within the time budget", res.Unstarted, len(jobs)))
	}
	if m.TimedOut > 0 {
		run.Incomplete(fmt.Sprintf("%d scenarios stopped by the time budget before their tree was exhausted", m.TimedOut))
	}
	if m.Capped > 0 {
		run.Incomplete(fmt.Sprintf("%d scenarios hit the per-scenario execution cap", m.Capped))
	}
	if m.Diverged > 0 {
		run.Incomplete(fmt.Sprintf("%d replays diverged (residual nondeterminism); their subtrees are unexplored", m.Diverged))
	}
	if m.NoQuiesce > 0 {
		run.Incomplete(fmt.Sprintf("%d executions did not reach quiescence", m.NoQuiesce))
	}
	for _, c := range res.Crashed {
		run.Incomplete("worker crashed")
		run.Note("%s", c)
		fmt.Fprintln(os.Stderr, c)
	}
	keys := make([]string, 0, len(m.Violations))
	for k := range m.Violations {
		keys = append(keys, k)
	}
	sort.Strings(keys)
	unconfirmed := 0
	for _, k := range keys {
		v := m.Violations[k]
		sk := k
		if o.KeyOf != nil {
			sk = o.KeyOf(k)
		}
		ok, info := confirm(run.Property, k, m.VScenario[k], v.Trace)
		if !ok {
			unconfirmed++
			run.Note("violation %s in %s did not reproduce deterministically (%s): not reported", k, m.VScenario[k], info)
			continue
		}
		run.Violation(sk, fmt.Sprintf("[%s] %s (x%d)", m.VScenario[k], v.What, v.Count), map[string]any{"scenario": m.VScenario[k], "trace": v.Trace, "raw_key": k})
	}
	if unconfirmed > 0 {
		run.Incomplete(fmt.Sprintf("%d violation candidates were not reproducible and are not reported", unconfirmed))
	}
	distinct := len(m.Outcomes)
	cov := ev.Coverage{
		"evaluations":                   m.Executions,
		"distinct_nontrivial":           distinct,
		"states":                        m.Nodes,
		"transitions":                   m.Transitions,
		"traces_validated_against_impl": m.Executions,
		"scenarios":                     m.Scenarios,
		"scenarios_in_table":            len(jobs),
		"executions":                    m.Executions,
		"max_depth":                     m.MaxDepth,
		"pruned":                        m.Pruned,
		"state_keys":                    m.States,
		"diverged":                      m.Diverged,
		"inconclusive_deadlock":         m.Deadlocks,
		"inconclusive_horizon":          m.Horizons,
		"distinct_outcomes":             distinct,
		"outcomes":                      topOutcomes(m.Outcomes, 40),
		"bounds":                        o.Bounds,
		"rule":                          o.Rule + "; states = distinct nodes of the schedule trees, transitions = seam events executed on the real code (incl. replayed prefixes), every execution is an implementation run",
		"samples":                       m.Samples,
	}
	if len(m.Samples) == 0 {
		cov["samples"] = []any{"(no execution finished)"}
	}
	run.Finish(cov, o.Assumptions)
}

func topOutcomes(m map[string]int64, n int) map[string]int64 {
	type kv struct {
		k string
		v int64
	}
	var l []kv
	for k, v := range m {
		l = append(l, kv{k, v})
	}
	sort.Slice(l, func(i, j int) bool { return l[i].v > l[j].v || (l[i].v == l[j].v && l[i].k < l[j].k) })
	out := map[string]int64{}
	for i, e := range l {
		if i >= n {
			break
		}
		k := e.k
		if len(k) > 160 {
			k = k[:160]
		}
		out[k] += e.v
	}
	return out
}

package common

import (
	"fmt"
	"time"

	"github.com/pingcap/kvproto/pkg/errorpb"
	"github.com/pingcap/kvproto/pkg/kvrpcpb"
	"github.com/tikv/client-go/v2/tikvrpc"
	"github.com/tikv/client-go/v2/verifrt/sched"
	"github.com/tikv/client-go/v2/verifrt/txnh"
)

func op(kind, key string) txnh.Op { return txnh.Op{Kind: kind, Key: key} }

// Shape is a victim transaction shape.
type Shape struct {
	Name string
	Pess bool
	Ops  []txnh.Op
	Seed []string // key,value pairs committed before
	// LockOnlyPrimary: the primary is a lock-only key of an optimistic transaction. unistore does not
	// keep a commit record for such a key, so a re-sent primary Commit is answered "lock not found"
	// instead of success (TiKV is idempotent there): fault scenarios skip this shape on unistore.
	LockOnlyPrimary bool
}

// Shapes returns the victim shapes (1-3 keys, put/delete/insert/lock-only, both lock modes).
func Shapes(thorough bool) []Shape {
	c := txnh.Op{Kind: "commit"}
	s := []Shape{
		{Name: "set(a)", Ops: []txnh.Op{op("set", "a"), c}},
		{Name: "set(a);set(b)", Ops: []txnh.Op{op("set", "a"), op("set", "b"), c}},
		{Name: "set(a);delete(b);insert(c)", Ops: []txnh.Op{op("set", "a"), op("delete", "b"), op("insert", "c"), c}, Seed: []string{"b", "base"}},
		{Name: "lock(a);set(b)", Ops: []txnh.Op{op("lock", "a"), op("set", "b"), c}, LockOnlyPrimary: true},
		{Name: "insert(c);delete(c);set(a);set(b)", Ops: []txnh.Op{op("insert", "c"), op("delete", "c"), op("set", "a"), op("set", "b"), c}},
		{Name: "P:lock(a);set(a)", Pess: true, Ops: []txnh.Op{op("lock", "a"), op("set", "a"), c}},
		{Name: "P:lock(c);set(c);lock(a);set(a)", Pess: true, Ops: []txnh.Op{op("lock", "c"), op("set", "c"), op("lock", "a"), op("set", "a"), c}},
	}
	if thorough {
		s = append(s,
			Shape{Name: "set(a);set(b);set(c)", Ops: []txnh.Op{op("set", "a"), op("set", "b"), op("set", "c"), c}},
			Shape{Name: "insert(a);delete(a);set(b)", Ops: []txnh.Op{op("insert", "a"), op("delete", "a"), op("set", "b"), c}},
			Shape{Name: "P:lockrv(b);delete(b);lock(c);set(c)", Pess: true, Ops: []txnh.Op{op("lockrv", "b"), op("delete", "b"), op("lock", "c"), op("set", "c"), c}, Seed: []string{"b", "base"}},
			Shape{Name: "P:lock(a,b);set(a);lock-only(b)", Pess: true, Ops: []txnh.Op{{Kind: "lock", Keys: []string{"a", "b"}}, op("set", "a"), c}},
		)
	}
	return s
}

// Layout of the key pool a,b,c.
type Layout struct {
	Name   string
	Splits []string
}

func Layouts(thorough bool) []Layout {
	l := []Layout{{"1region", nil}, {"split@b", []string{"b"}}}
	if thorough {
		l = append(l, Layout{"split@b,c", []string{"b", "c"}})
	}
	return l
}

// Fault deviations offered for an RPC of the victim.
func FaultMenu(w *txnh.World, e *sched.Event, withSplit bool) []sched.Dev {
	req, ok := e.Payload.(*tikvrpc.Request)
	if !ok || req == nil {
		return nil
	}
	ds := []sched.Dev{
		{Name: "drop-req", Kind: txnh.DevDropReq},
		{Name: "drop-resp", Kind: txnh.DevDropResp},
		{Name: "down-req", Kind: txnh.DevDownReq},
		{Name: "down-resp", Kind: txnh.DevDownResp},
		{Name: "drop-resp-deadline", Kind: txnh.DevDropResp, Arg: "deadline"},
		{Name: "down-resp-deadline", Kind: txnh.DevDownResp, Arg: "deadline"},
		{Name: "not-leader", Kind: txnh.DevRegionErr, Arg: &errorpb.Error{Message: "injected", NotLeader: &errorpb.NotLeader{RegionId: req.Context.GetRegionId()}}},
		{Name: "epoch-not-match", Kind: txnh.DevRegionErr, Arg: &errorpb.Error{Message: "injected", EpochNotMatch: &errorpb.EpochNotMatch{}}},
		{Name: "server-busy", Kind: txnh.DevRegionErr, Arg: &errorpb.Error{Message: "injected", ServerIsBusy: &errorpb.ServerIsBusy{Reason: "injected"}}},
		{Name: "stale-command", Kind: txnh.DevRegionErr, Arg: &errorpb.Error{Message: "injected", StaleCommand: &errorpb.StaleCommand{}}},
	}
	if withSplit {
		// a real split of the target region right before delivery, at the last key of the request
		// (so that a multi-key batch has to be regrouped)
		ks := txnh.ReqKeys(req)
		if len(ks) > 0 && len(ks[len(ks)-1]) > 0 {
			k := ks[len(ks)-1]
			ds = append(ds, sched.Dev{Name: "split@" + string(k), Kind: txnh.DevHook, Arg: func() { w.B.SplitAt(k) }})
		}
	}
	return ds
}

// IsCommitPoint reports whether losing this request/response can leave the commit decision unknown:
// the primary's Commit for 2PC, any prewrite for async commit / 1PC.
func IsCommitPoint(r txnh.RPCRecord, primary string) bool {
	switch q := r.Req.Req.(type) {
	case *kvrpcpb.CommitRequest:
		for _, k := range q.Keys {
			if string(k) == primary {
				return true
			}
		}
	case *kvrpcpb.PrewriteRequest:
		return q.UseAsyncCommit || q.TryOnePc
	}
	return false
}

// AdvanceClockChoice offers "the clock jumps past every lock TTL" once per execution.
func AdvanceClockChoice(done *bool, d time.Duration) []sched.Choice {
	if *done {
		return nil
	}
	return []sched.Choice{{Key: fmt.Sprintf("clock+%s", d), FCost: 1, Fn: func() { *done = true; sched.Advance(d) }}}
}

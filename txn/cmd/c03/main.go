// C03: Commit's answer is truthful under lost messages, region errors, region
// splits and resolver races. Fault enumeration at the store seam: every
// deviation at every RPC of the committing client (budget F), interleaved with
// an optional reader whose resolver may find the locks expired, on the real
// client code.
package main

import (
	"fmt"
	"os"
	"strings"
	"time"

	"veriftxn/common"
	_ "veriftxn/unibk"

	"github.com/tikv/client-go/v2/verifrt/ev"
	"github.com/tikv/client-go/v2/verifrt/sched"
	"github.com/tikv/client-go/v2/verifrt/txnh"
)

func main() {
	txnh.Init()
	run := ev.Start("C03", "fault_enumeration")
	keys := []string{"a", "b", "c"}
	F, P := 1, 1
	budget := 240 * time.Second
	if run.Thorough() {
		F, P = 2, 1
		budget = 35 * time.Minute
	}
	if s := os.Getenv("VERIF_BUDGET_S"); s != "" {
		var n int
		fmt.Sscan(s, &n)
		budget = time.Duration(n) * time.Second
	}
	var jobs []sched.Job
	specs := map[string]func() *txnh.TxnScenario{}
	for _, bk := range common.BackendsTier(run.Thorough()) {
		for _, m := range common.ModesWithDeclined(bk) {
			for _, sh := range common.Shapes(run.Thorough()) {
				if sh.Pess != m.Pessimistic || (sh.LockOnlyPrimary && bk.Name == "unistore") {
					continue
				}
				for _, lo := range common.Layouts(run.Thorough()) {
					for _, reader := range []bool{false, true} {
						bk, m, sh, lo, reader := bk, m, sh, lo, reader
						name := fmt.Sprintf("%s/%s/%s/%s/reader=%v", bk.Name, lo.Name, m, sh.Name, reader)
						mk := func() *txnh.TxnScenario {
							clock := false
							sc := &txnh.TxnScenario{
								ID:         name,
								NewBackend: func() txnh.Backend { return bk.New(lo.Splits) },
								Keys:       keys,
								Progs:      [][]txnh.Program{{{Mode: m, Ops: sh.Ops}}},
							}
							if reader {
								sc.Progs = append(sc.Progs, []txnh.Program{{Mode: txnh.Mode{}, Ops: []txnh.Op{{Kind: "bget", Keys: keys}, {Kind: "get", Key: "a"}, {Kind: "commit"}}}})
							}
							sc.SetupFn = func(s *txnh.TxnScenario) {
								clock = false
								if len(sh.Seed) > 0 {
									common.SeedKey(s, sh.Seed...)
								}
							}
							sc.MenuFn = func(s *txnh.TxnScenario, e *sched.Event) []sched.Dev {
								if e.Actor != 0 || e.Kind != sched.KRPC {
									return nil
								}
								return common.FaultMenu(s.W, e, true)
							}
							sc.ExtraFn = func(s *txnh.TxnScenario) []sched.Choice {
								if !reader || len(s.W.B.Locks()) == 0 {
									return nil
								}
								// the clock jumps past the lock TTL while the committer is still running:
								// the reader's resolver now considers the victim's locks expired
								return common.AdvanceClockChoice(&clock, 21*time.Second)
							}
							sc.CheckFn = func(s *txnh.TxnScenario, x *sched.Exec) []sched.Violation {
								v := s.H.Txns[0]
								if v.Outcome == "open" || v.Outcome == "unstarted" {
									if x.Deadlock {
										return []sched.Violation{{Key: "commit:hang", What: fmt.Sprintf("%s never returned although nothing is left to wait for", v.Prog)}}
									}
									return nil // horizon: inconclusive, counted by the engine
								}
								out, _, t := common.AuditVictim(s, x, 0, "")
								if v.Outcome == "undetermined" {
									primary := common.PrimaryOf(t.Log, v.StartTS)
									cause := false
									for _, r := range t.Log {
										if r.Client == 0 && txnh.LostMessage(r.Dev) && common.IsCommitPoint(r, primary) {
											cause = true
										}
									}
									if !cause {
										out = append(out, sched.Violation{Key: "undetermined-without-lost-commit-point-message", What: fmt.Sprintf("%s returned 'result undetermined' but no request that could move the commit point was lost", v.Prog)})
									}
								}
								// the reader's observations must still be a consistent snapshot
								if t != nil {
									t.Splits = lo.Splits
									for _, sv := range txnh.AuditSI(s.H, t) {
										sv.Key = "si:" + sv.Key
										out = append(out, sv)
									}
								}
								return out
							}
							return sc
						}
						specs[name] = mk
						jobs = append(jobs, sched.Job{Name: name, Run: func(dl time.Time) sched.Report {
							sc := mk()
							x := &sched.Explorer{Sc: sc, B: sched.Bounds{P: P, F: F, Horizon: 500, EarlyTimers: true, Deadline: dl}}
							x.Outcome = func(e *sched.Exec) string {
								devs := ""
								for _, r := range sc.W.Log() {
									if r.Dev != 0 {
										devs += fmt.Sprintf("%s!%d ", r.Cmd, r.Dev)
									}
								}
								return sc.H.Txns[0].Outcome + ":" + sc.H.Txns[0].CommitErr + " " + devs
							}
							return x.Explore(false)
						}})
					}
				}
			}
		}
	}
	// A commit that fails definitely (the store answers one prewrite with a write conflict) while another
	// client expires the remaining locks: the reader arrives as an explored actor as soon as Commit has
	// returned, racing with the committer's asynchronous clean-up; two preemptions (one to get ahead of
	// the clean-up, one to reorder the answers to the reader's concurrent status checks).
	for _, er := range common.ExploredRecoveryWith(run.Thorough(), keys, "reader-after-failed-commit") {
		if !run.Thorough() && !(strings.Contains(er.Name, "async") && strings.Contains(er.Name, "split@b,c")) {
			continue
		}
		er := er
		mk := func() *txnh.TxnScenario {
			sc := er.Make()
			sc.CheckFn = func(s *txnh.TxnScenario, x *sched.Exec) []sched.Violation {
				v := s.H.Txns[0]
				if v.Outcome == "open" || v.Outcome == "unstarted" {
					return nil
				}
				out, _, t := common.AuditVictimR(s, x, 0, "", "reader-gc")
				if t != nil {
					t.Splits = er.Splits
					for _, sv := range txnh.AuditSI(s.H, t) {
						sv.Key = "si:" + sv.Key
						out = append(out, sv)
					}
				}
				return out
			}
			return sc
		}
		specs[er.Name] = mk
		jobs = append(jobs, sched.Job{Name: er.Name, Run: func(dl time.Time) sched.Report {
			sc := mk()
			x := &sched.Explorer{Sc: sc, B: sched.Bounds{P: 2, F: 1, Horizon: 500, EarlyTimers: false, Deadline: dl}}
			x.Outcome = func(e *sched.Exec) string {
				return sc.H.Txns[0].Outcome + ":" + sc.H.Txns[0].CommitErr + fmt.Sprint(len(sc.W.Log()))
			}
			return x.Explore(false)
		}})
	}
	if common.HandleReplay(run, jobs, func(name string) sched.Scenario {
		if mk, ok := specs[name]; ok {
			return mk()
		}
		return nil
	}, sched.Bounds{P: 99, F: 99, Horizon: 500, EarlyTimers: true}) {
		return
	}
	res := sched.RunSharded(jobs, budget)
	common.Finish(run, jobs, res, common.FinishOpts{
		Bounds: map[string]any{"faults": F, "preemptions": P, "keys": keys, "horizon": 500},
		Rule: "victim transaction shapes (1-3 keys, put/delete/insert/lock-only, optimistic and pessimistic) x layouts x commit modes x backends x {alone, with a concurrent reader}; " +
			"for each, every placement of <= F deviations from {drop request, drop response, NotLeader, EpochNotMatch, ServerIsBusy, StaleCommand, real split before delivery} at every RPC of the victim (foreground and background), " +
			"plus 'clock jumps past the TTL' while a reader runs (its resolver then treats the victim's locks as expired / pushes min-commit-ts), interleaved with <= P preemptions; after each execution leftover locks are driven to their outcome and Commit's answer is compared with the final MVCC state. " +
			"distinct_nontrivial = distinct (outcome, applied deviations) classes",
		Assumptions: []string{
			"seam-granularity interleavings; one linearisation point per TSO request",
			"'undetermined' is accepted iff a drop-request/drop-response deviation hit the primary's Commit (2PC) or any prewrite (async commit / 1PC)",
			"clock jump is 21 s (> default lock TTL 20 s? the managed TTL is 20 s; 3 s for small transactions), far below MaxTxnTimeUse",
		},
	})
}

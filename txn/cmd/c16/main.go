// C16: a pipelined transaction reads its flushed writes; every mutation is
// flushed once; commit / rollback drive all flushed locks to the primary's
// outcome. All programs of set / delete / get / batch-get / flush / flush-wait
// up to a depth over keys that sit on region borders, ending in commit or
// rollback, on the real pipelined KVTxn over unistore (the in-repo mock has no
// Flush / BufferBatchGet); the completion of every flush relative to the next
// calls is an explorer decision (preemption bound), a flush RPC may be lost.
package main

import (
	"fmt"
	"os"
	"strings"
	"time"

	"veriftxn/common"
	_ "veriftxn/unibk"

	"github.com/pingcap/kvproto/pkg/kvrpcpb"
	"github.com/tikv/client-go/v2/tikvrpc"
	"github.com/tikv/client-go/v2/verifrt/ev"
	"github.com/tikv/client-go/v2/verifrt/sched"
	"github.com/tikv/client-go/v2/verifrt/txnh"
)

func op(kind, key string) txnh.Op { return txnh.Op{Kind: kind, Key: key} }

type step struct {
	name string
	ops  []txnh.Op
}

func programs(steps []step, depth int) [][]int {
	var out [][]int
	var rec func(cur []int)
	rec = func(cur []int) {
		if len(cur) > 0 {
			out = append(out, append([]int{}, cur...))
		}
		if len(cur) == depth {
			return
		}
		for i := range steps {
			rec(append(cur, i))
		}
	}
	rec(nil)
	return out
}

func main() {
	txnh.Init()
	run := ev.Start("C16", "model_checking")
	keys := []string{"a", "b", "c"}
	depth, P, F := 3, 1, 0
	budget := 160 * time.Second
	if run.Thorough() {
		depth, P, F = 4, 1, 1
		budget = 35 * time.Minute
	}
	if s := os.Getenv("VERIF_BUDGET_S"); s != "" {
		var n int
		fmt.Sscan(s, &n)
		budget = time.Duration(n) * time.Second
	}
	steps := []step{
		{"set(a)", []txnh.Op{op("set", "a")}},
		{"set(b)", []txnh.Op{op("set", "b")}},
		{"set(c)", []txnh.Op{op("set", "c")}},
		{"delete(b)", []txnh.Op{op("delete", "b")}},
		{"flush", []txnh.Op{{Kind: "flush"}}},
		{"flush;wait", []txnh.Op{{Kind: "flush"}, {Kind: "flushwait"}}},
		{"get(b)", []txnh.Op{op("get", "b")}},
		{"bget(a,b,c)", []txnh.Op{{Kind: "bget", Keys: []string{"a", "b", "c"}}}},
	}
	layouts := []common.Layout{{Name: "1region"}, {Name: "split@b", Splits: []string{"b"}}, {Name: "split@b,c", Splits: []string{"b", "c"}}}
	var jobs []sched.Job
	specs := map[string]func() *txnh.TxnScenario{}
	var uni *common.BackendSpec
	for _, bk := range common.Backends() {
		if bk.Name == "unistore" {
			b := bk
			uni = &b
		}
	}
	if uni == nil {
		run.Incomplete("unistore backend not compiled in")
		run.Finish(ev.Coverage{"evaluations": 0, "distinct_nontrivial": 0, "samples": []any{"none"}}, nil)
	}
	for _, lo := range layouts {
		for _, prog := range programs(steps, depth) {
			writes, flushes := 0, 0
			var names []string
			var ops []txnh.Op
			for _, i := range prog {
				names = append(names, steps[i].name)
				ops = append(ops, steps[i].ops...)
				if strings.HasPrefix(steps[i].name, "set") || strings.HasPrefix(steps[i].name, "delete") {
					writes++
				}
				if strings.HasPrefix(steps[i].name, "flush") {
					flushes++
				}
			}
			if writes == 0 {
				continue
			}
			if !run.Thorough() && lo.Name == "1region" && flushes == 0 {
				continue
			}
			for _, end := range []string{"commit", "rollback"} {
				lo, end := lo, end
				pops := append(append([]txnh.Op{}, ops...), txnh.Op{Kind: end})
				name := fmt.Sprintf("unistore/%s/pipelined/%s;%s", lo.Name, strings.Join(names, ";"), end)
				mk := func() *txnh.TxnScenario {
					sc := &txnh.TxnScenario{ID: name, NewBackend: func() txnh.Backend { return uni.New(lo.Splits) }, Keys: keys,
						Progs: [][]txnh.Program{{{Mode: txnh.Mode{Pipelined: true}, Ops: pops}}}}
					sc.SetupFn = func(s *txnh.TxnScenario) { common.SeedKey(s, "b", "base") }
					if F > 0 {
						sc.MenuFn = func(s *txnh.TxnScenario, e *sched.Event) []sched.Dev {
							req, _ := e.Payload.(*tikvrpc.Request)
							if e.Actor != 0 || e.Kind != sched.KRPC || req == nil || req.Type != tikvrpc.CmdFlush {
								return nil
							}
							return []sched.Dev{{Name: "down-req", Kind: txnh.DevDownReq}, {Name: "drop-resp", Kind: txnh.DevDropResp}}
						}
					}
					sc.CheckFn = check
					return sc
				}
				specs[name] = mk
				jobs = append(jobs, sched.Job{Name: name, Run: func(dl time.Time) sched.Report {
					sc := mk()
					x := &sched.Explorer{Sc: sc, B: sched.Bounds{P: P, F: F, Horizon: 400, EarlyTimers: false, Deadline: dl}}
					x.Outcome = func(e *sched.Exec) string {
						fl := 0
						for _, r := range sc.W.Log() {
							if r.Cmd == tikvrpc.CmdFlush {
								fl++
							}
						}
						return fmt.Sprintf("%s flushes=%d %s", sc.H.Txns[0].Outcome, fl, sc.OutcomeString())
					}
					return x.Explore(false)
				}})
			}
		}
	}
	// Resolver family: while the pipelined transaction is alive, another client considers its locks
	// expired (the clock jumps past the TTL) and reads the keys: the flushed locks are rolled back through
	// the primary. The transaction goes on (more writes, a last flush, commit): Commit must fail and the
	// keys flushed afterwards must share that outcome. The resolver event is offered once, at every
	// decision point at which a lock of the transaction exists (one deviation).
	{
		c, w := txnh.Op{Kind: "flush"}, txnh.Op{Kind: "flushwait"}
		rprogs := []struct {
			name string
			ops  []txnh.Op
		}{
			{"set(a);flush;wait;set(c)", []txnh.Op{op("set", "a"), c, w, op("set", "c")}},
			{"set(a);set(b);flush;wait;set(c)", []txnh.Op{op("set", "a"), op("set", "b"), c, w, op("set", "c")}},
			{"set(b);flush;wait;delete(b);set(a)", []txnh.Op{op("set", "b"), c, w, op("delete", "b"), op("set", "a")}},
			{"set(a);flush;set(b);flush;wait;set(c)", []txnh.Op{op("set", "a"), c, op("set", "b"), c, w, op("set", "c")}},
		}
		for _, lo := range layouts {
			for _, rp := range rprogs {
				for _, end := range []string{"commit", "rollback"} {
					lo, rp, end := lo, rp, end
					pops := append(append([]txnh.Op{}, rp.ops...), txnh.Op{Kind: end})
					name := fmt.Sprintf("unistore/%s/pipelined+resolver/%s;%s", lo.Name, rp.name, end)
					mk := func() *txnh.TxnScenario {
						done := false
						sc := &txnh.TxnScenario{ID: name, NewBackend: func() txnh.Backend { return uni.New(lo.Splits) }, Keys: keys,
							Progs: [][]txnh.Program{{{Mode: txnh.Mode{Pipelined: true}, Ops: pops}}}}
						sc.SetupFn = func(s *txnh.TxnScenario) { done = false; common.SeedKey(s, "b", "base") }
						sc.ExtraFn = func(s *txnh.TxnScenario) []sched.Choice {
							if done || len(s.W.B.Locks()) == 0 {
								return nil
							}
							return []sched.Choice{{Key: "resolver-expires-the-locks", FCost: 1, Fn: func() {
								done = true
								sched.Sync(func() {
									sched.Advance(10 * time.Minute)
									rc := s.W.AddClient()
									ts, err := rc.Store.CurrentTimestamp("global")
									if err != nil {
										ts = s.W.TSO.NextTS()
									}
									s.W.SnapshotRead(rc, ts, s.Keys)
								})
							}}}
						}
						sc.CheckFn = check
						return sc
					}
					specs[name] = mk
					jobs = append(jobs, sched.Job{Name: name, Run: func(dl time.Time) sched.Report {
						sc := mk()
						x := &sched.Explorer{Sc: sc, B: sched.Bounds{P: 0, F: 1, Horizon: 400, EarlyTimers: false, Deadline: dl}}
						x.Outcome = func(e *sched.Exec) string {
							r := ""
							for _, k := range e.Trace {
								if strings.Contains(k, "resolver") {
									r = fmt.Sprintf(" resolver@%d", len(sc.W.Log()))
								}
							}
							return sc.H.Txns[0].Outcome + ":" + sc.H.Txns[0].CommitErr + r
						}
						return x.Explore(false)
					}})
				}
			}
		}
	}
	// Split-before-read family: the writes are flushed, then the region holding them splits behind the
	// client's back right before a multi-key read of the flushed buffer is delivered (one deviation): the
	// store answers EpochNotMatch, the keys have to be regrouped, and the retried read must still be a
	// read of the transaction's own flushed writes.
	{
		fl, w := txnh.Op{Kind: "flush"}, txnh.Op{Kind: "flushwait"}
		bg := txnh.Op{Kind: "bget", Keys: []string{"a", "b", "c"}}
		sprogs := []struct {
			name string
			ops  []txnh.Op
		}{
			{"set(a);set(c);flush;wait;bget(a,b,c)", []txnh.Op{op("set", "a"), op("set", "c"), fl, w, bg}},
			{"set(a);delete(b);set(c);flush;wait;bget(a,b,c);get(b)", []txnh.Op{op("set", "a"), op("delete", "b"), op("set", "c"), fl, w, bg, op("get", "b")}},
			{"set(b);flush;wait;set(a);flush;wait;bget(a,b,c)", []txnh.Op{op("set", "b"), fl, w, op("set", "a"), fl, w, bg}},
		}
		for _, lo := range layouts[:2] {
			for _, sp := range sprogs {
				for _, end := range []string{"commit", "rollback"} {
					lo, sp, end := lo, sp, end
					pops := append(append([]txnh.Op{}, sp.ops...), txnh.Op{Kind: end})
					name := fmt.Sprintf("unistore/%s/pipelined+split-before-read/%s;%s", lo.Name, sp.name, end)
					mk := func() *txnh.TxnScenario {
						sc := &txnh.TxnScenario{ID: name, NewBackend: func() txnh.Backend { return uni.New(lo.Splits) }, Keys: keys,
							Progs: [][]txnh.Program{{{Mode: txnh.Mode{Pipelined: true}, Ops: pops}}}}
						sc.SetupFn = func(s *txnh.TxnScenario) { common.SeedKey(s, "a", "old-a", "b", "old-b", "c", "old-c") }
						sc.MenuFn = func(s *txnh.TxnScenario, e *sched.Event) []sched.Dev {
							req, _ := e.Payload.(*tikvrpc.Request)
							if e.Actor != 0 || e.Kind != sched.KRPC || req == nil || (req.Type != tikvrpc.CmdBufferBatchGet && req.Type != tikvrpc.CmdBatchGet && req.Type != tikvrpc.CmdGet) {
								return nil
							}
							var ds []sched.Dev
							for _, k := range []string{"b", "c"} {
								k := k
								ds = append(ds, sched.Dev{Name: "split@" + k, Kind: txnh.DevHook, Arg: func() { s.W.B.SplitAt([]byte(k)) }})
							}
							return ds
						}
						sc.CheckFn = check
						return sc
					}
					specs[name] = mk
					jobs = append(jobs, sched.Job{Name: name, Run: func(dl time.Time) sched.Report {
						sc := mk()
						x := &sched.Explorer{Sc: sc, B: sched.Bounds{P: 0, F: 1, Horizon: 400, EarlyTimers: false, Deadline: dl}}
						x.Outcome = func(e *sched.Exec) string { return sc.H.Txns[0].Outcome + " " + sc.OutcomeString() }
						return x.Explore(false)
					}})
				}
			}
		}
	}
	// Flush answered with a key error: the store rejects one batch of a multi-batch flush (three regions:
	// one batch per key) with a definite key error - assertion failed, write conflict, already exists,
	// abort - instead of applying it (one deviation). "A flush error makes the transaction fail instead of
	// losing writes": Commit must not succeed without that batch's writes.
	{
		fl, w := txnh.Op{Kind: "flush"}, txnh.Op{Kind: "flushwait"}
		kerr := func(kind string, q *kvrpcpb.FlushRequest) *kvrpcpb.KeyError {
			k := q.Mutations[0].Key
			switch kind {
			case "assertion-failed":
				return &kvrpcpb.KeyError{AssertionFailed: &kvrpcpb.AssertionFailed{StartTs: q.StartTs, Key: k, Assertion: kvrpcpb.Assertion_NotExist, ExistingStartTs: 1, ExistingCommitTs: 2}}
			case "write-conflict":
				return &kvrpcpb.KeyError{Conflict: &kvrpcpb.WriteConflict{StartTs: q.StartTs, ConflictTs: q.StartTs + 1, ConflictCommitTs: q.StartTs + 2, Key: k, Primary: q.PrimaryKey}}
			case "already-exists":
				return &kvrpcpb.KeyError{AlreadyExist: &kvrpcpb.AlreadyExist{Key: k}}
			}
			return &kvrpcpb.KeyError{Abort: "injected abort"}
		}
		eprogs := []struct {
			name string
			ops  []txnh.Op
		}{
			{"set(a);set(b);set(c);flush;wait", []txnh.Op{op("set", "a"), op("set", "b"), op("set", "c"), fl, w}},
			{"set(a);set(b);set(c)", []txnh.Op{op("set", "a"), op("set", "b"), op("set", "c")}},
			{"set(a);flush;wait;set(b);set(c);flush;wait", []txnh.Op{op("set", "a"), fl, w, op("set", "b"), op("set", "c"), fl, w}},
		}
		lo := layouts[2]
		for _, ep := range eprogs {
			for _, end := range []string{"commit", "rollback"} {
				ep, end := ep, end
				pops := append(append([]txnh.Op{}, ep.ops...), txnh.Op{Kind: end})
				name := fmt.Sprintf("unistore/%s/pipelined+flush-key-error/%s;%s", lo.Name, ep.name, end)
				mk := func() *txnh.TxnScenario {
					sc := &txnh.TxnScenario{ID: name, NewBackend: func() txnh.Backend { return uni.New(lo.Splits) }, Keys: keys,
						Progs: [][]txnh.Program{{{Mode: txnh.Mode{Pipelined: true}, Ops: pops}}}}
					sc.SetupFn = func(s *txnh.TxnScenario) { common.SeedKey(s, "b", "base") }
					sc.MenuFn = func(s *txnh.TxnScenario, e *sched.Event) []sched.Dev {
						req, _ := e.Payload.(*tikvrpc.Request)
						if e.Actor != 0 || e.Kind != sched.KRPC || req == nil || req.Type != tikvrpc.CmdFlush {
							return nil
						}
						var ds []sched.Dev
						for _, kind := range []string{"assertion-failed", "write-conflict", "already-exists", "abort"} {
							kind := kind
							ds = append(ds, sched.Dev{Name: "answer-" + kind, Kind: txnh.DevAnswer, Arg: func(r *tikvrpc.Request) *tikvrpc.Response {
								return &tikvrpc.Response{Resp: &kvrpcpb.FlushResponse{Errors: []*kvrpcpb.KeyError{kerr(kind, r.Flush())}}}
							}})
						}
						return ds
					}
					sc.CheckFn = check
					return sc
				}
				specs[name] = mk
				jobs = append(jobs, sched.Job{Name: name, Run: func(dl time.Time) sched.Report {
					sc := mk()
					x := &sched.Explorer{Sc: sc, B: sched.Bounds{P: 0, F: 1, Horizon: 400, EarlyTimers: false, Deadline: dl}}
					x.Outcome = func(e *sched.Exec) string {
						dev := ""
						for _, r := range sc.W.Log() {
							if r.Dev != 0 {
								dev += " " + r.Label
							}
						}
						return sc.H.Txns[0].Outcome + ":" + sc.H.Txns[0].CommitErr + dev
					}
					return x.Explore(false)
				}})
			}
		}
	}
	if common.HandleReplay(run, jobs, func(name string) sched.Scenario {
		if mk, ok := specs[name]; ok {
			return mk()
		}
		return nil
	}, sched.Bounds{P: 99, F: 99, Horizon: 400}) {
		return
	}
	res := sched.RunSharded(jobs, budget)
	common.Finish(run, jobs, res, common.FinishOpts{
		Bounds: map[string]any{"program_depth_steps": depth, "preemptions": P, "flush_faults": F, "keys": keys, "layouts": []string{"1region", "split@b", "split@b,c"}},
		Rule: "every program of <= depth steps from {set a/b/c, delete b, flush, flush+wait, get b, batch-get a,b,c} with at least one write, ending in commit or rollback, of one pipelined transaction over unistore on three layouts (flushed keys on region borders); each call is a scheduling point, so a running flush completes before or after the following calls (<= P preemptions), thorough: one flush RPC lost / its answer lost. " +
			"Resolver family: 4 programs x 3 layouts x {commit, rollback} with one resolver event (clock past the TTL, another client reads all keys and rolls the flushed locks back through the primary) at every decision point at which a lock exists. " +
			"Split-before-read family: 3 programs that flush and then read several keys at once, 2 layouts, a region split at b or c injected right before any read RPC of the transaction is delivered. " +
			"Flush-key-error family: 3 programs over three regions (one flush batch per key), the store answers any one Flush batch with a key error (assertion failed, write conflict, already exists, abort). " +
			"Oracle: every read returns the latest program-order write (else the snapshot value); every buffered mutation reaches the store in exactly one Flush request per generation, generations strictly increase and at most one flush generation is in flight; a flush failure makes commit fail; after commit/rollback and drain every key the transaction flushed has the primary's outcome and no lock of it is left. distinct_nontrivial = distinct (outcome, flush count, read results) classes",
		Assumptions: []string{
			"unistore is the store (the in-repo mock implements neither Flush nor BufferBatchGet); flush and resolve-lock concurrency are set to 1",
			"seam-granularity interleavings; the 100 ms broadcast grace sleep is a virtual timer",
		},
	})
}

func check(s *txnh.TxnScenario, x *sched.Exec) []sched.Violation {
	var out []sched.Violation
	add := func(key, format string, a ...any) {
		out = append(out, sched.Violation{Key: key, What: fmt.Sprintf(format, a...)})
	}
	t0 := s.H.Txns[0]
	if x.Horizon || t0.Outcome == "open" || t0.Outcome == "unstarted" {
		return nil
	}
	log := s.W.Log()
	// flush stream rules
	lastGen := uint64(0)
	inflight := map[uint64]bool{}
	seen := map[string]uint64{}        // unique put value -> generation
	flushedIn := map[string][]uint64{} // key -> generations that carried a mutation of it
	lost := false
	for _, r := range log {
		q, ok := r.Req.Req.(*kvrpcpb.FlushRequest)
		if !ok || q.StartTs != t0.StartTS {
			continue
		}
		if txnh.LostMessage(r.Dev) {
			lost = true
		}
		if q.Generation < lastGen {
			add("flush:generation-decreased", "%s: Flush generation %d sent after generation %d", t0.Prog, q.Generation, lastGen)
		}
		if q.Generation > lastGen {
			if len(inflight) > 0 && !lost {
				for g := range inflight {
					add("flush:two-generations-in-flight", "%s: Flush generation %d sent while generation %d has an unanswered request", t0.Prog, q.Generation, g)
				}
			}
			lastGen = q.Generation
		}
		if r.Err != nil || r.Resp == nil {
			inflight[q.Generation] = true
		} else {
			delete(inflight, q.Generation)
		}
		for _, m := range q.Mutations {
			gens := flushedIn[string(m.Key)]
			if len(gens) == 0 || gens[len(gens)-1] != q.Generation {
				flushedIn[string(m.Key)] = append(gens, q.Generation)
			}
			if m.Op == kvrpcpb.Op_Put {
				// values are unique per write: the same value in two generations is the same mutation flushed twice
				k := fmt.Sprintf("%s=%s", m.Key, m.Value)
				if g, dup := seen[k]; dup && g != q.Generation {
					add("flush:mutation-flushed-twice", "%s: mutation %s handed to flush generation %d and again to generation %d", t0.Prog, k, g, q.Generation)
				}
				seen[k] = q.Generation
			}
		}
	}
	// a key cannot be part of more flush generations than the program wrote it
	writesTo := map[string]int{}
	for _, part := range strings.Split(t0.Prog, ";") {
		for _, k := range s.Keys {
			if strings.HasSuffix(part, "set("+k+")") || strings.HasSuffix(part, "delete("+k+")") {
				writesTo[k]++
			}
		}
	}
	for k, gens := range flushedIn {
		if len(gens) > writesTo[k] {
			add("flush:mutation-flushed-twice", "%s: key %q was written %d time(s) but is part of %d flush generations %v", t0.Prog, k, writesTo[k], len(gens), gens)
		}
	}
	// locks are judged on the drained state, before any forced resolution
	preLocks = s.W.B.Locks()
	preTruth := txnh.ReadTruth(s.W.B, s.Keys)
	committed := false
	for _, k := range s.Keys {
		for _, v := range preTruth.Versions[k] {
			if v.StartTS == t0.StartTS && v.Type != "rollback" {
				committed = true
			}
		}
	}
	switch t0.Outcome {
	case "committed":
		for k, w := range t0.Writes {
			found := false
			for _, v := range preTruth.Versions[k] {
				if v.StartTS == t0.StartTS && v.Type != "rollback" {
					found = true
					if !w.Del && v.Value != w.Val {
						add("pipelined:committed-wrong-value", "%s committed %s=%q, store has %q", t0.Prog, k, w.Val, v.Value)
					}
				}
			}
			if !found {
				add("pipelined:committed-key-missing", "%s (start=%d) committed but key %q carries no version of it after the background work drained", t0.Prog, t0.StartTS, k)
			}
		}
	case "rolledback", "failed":
		if committed {
			add("pipelined:ended-"+t0.Outcome+"-but-visible", "%s ended %s but some key carries a committed version of it", t0.Prog, t0.Outcome)
		}
	}
	txnh.ForceResolve(s.W, s.Keys, "reader-gc")
	// (locks are judged before any forced resolution: take them from the log-independent state captured now)
	t := txnh.ReadTruth(s.W.B, s.Keys)
	for _, sv := range txnh.AuditSI(s.H, t) {
		if lost {
			// after a flush request / answer was lost the transaction is doomed (the error surfaces at the
			// next flush, flush-wait or commit); what reads return in between is not judged, only that the
			// transaction does not report success without its writes (checked above) and leaves no lock
			continue
		}
		if strings.HasPrefix(sv.Key, "si:read:") {
			sv.Key = "pipelined:" + sv.Key
			out = append(out, sv)
		}
	}
	return append(out, outcome(s, t0, lost)...)
}

// outcome: after commit / rollback and drain, all flushed keys share the primary's outcome and no lock is left.
// It is evaluated on the state BEFORE forced resolution, which check() captured through preLocks.
func outcome(s *txnh.TxnScenario, t0 *txnh.TxnRec, lost bool) []sched.Violation {
	var out []sched.Violation
	for _, l := range preLocks {
		if l.StartTS == t0.StartTS {
			out = append(out, sched.Violation{Key: "pipelined:lock-left-after-" + t0.Outcome,
				What: fmt.Sprintf("%s (start=%d) ended %s %q, background work drained, but a %s lock on %q is still in the store (flushed range is resolved as [smallest, largest) key)", t0.Prog, t0.StartTS, t0.Outcome, t0.CommitErr, l.Type, l.Key)})
		}
	}
	return out
}

var preLocks []txnh.LockRec

package main

import (
	"context"
	"time"
	"fmt"

	"veriftxn/unibk"

	"github.com/tikv/client-go/v2/verifrt/txnh"
)

func main() {
	txnh.Init()
	b := unibk.New(nil)
	w := txnh.NewWorld(b, 1)
	txn, _ := w.Clients[0].Store.Begin()
	txn.SetEnableAsyncCommit(true)
	txn.Set([]byte("a"), []byte("v1"))
	fmt.Println("commit:", txn.Commit(context.Background()), txn.StartTS(), txn.CommitTS())
	fmt.Println("versions:", b.Versions([]byte("a")))
	fmt.Println("locks:", b.Locks())
	time.Sleep(200 * time.Millisecond)
	fmt.Println("versions:", b.Versions([]byte("a")))
	fmt.Println("locks:", b.Locks())
	v, err := w.Clients[0].Store.GetSnapshot(w.TSO.NextTS()).Get(context.Background(), []byte("a"))
	fmt.Println("get:", string(v.Value), err)
}

// C06: no lock of a finished transaction is left behind on failure-free paths.
// All programs of one transaction T (sets, deletes, pessimistic lock calls with
// their options, aggressive-locking stages, commit / rollback) up to a depth,
// interleaved with a contending transaction C under a preemption bound, on the
// real client; after the background work has drained (no pending seam event,
// no timer) and without advancing the clock, the store must hold no lock of a
// transaction that has ended.
package main

import (
	"fmt"
	"os"
	"strings"
	"time"

	"veriftxn/common"
	_ "veriftxn/unibk"

	"github.com/pingcap/kvproto/pkg/errorpb"
	"github.com/pingcap/kvproto/pkg/kvrpcpb"
	"github.com/tikv/client-go/v2/tikvrpc"
	"github.com/tikv/client-go/v2/verifrt/ev"
	"github.com/tikv/client-go/v2/verifrt/sched"
	"github.com/tikv/client-go/v2/verifrt/txnh"
)

func op(kind, key string) txnh.Op { return txnh.Op{Kind: kind, Key: key} }

type step struct {
	name string
	ops  []txnh.Op
}

func pessSteps() []step {
	lk := func(name, key string, o txnh.Op) step {
		o.Key = key
		return step{name + "(" + key + ")", []txnh.Op{o}}
	}
	var s []step
	for _, k := range []string{"a", "b"} {
		s = append(s,
			lk("lock", k, txnh.Op{Kind: "lock"}),
			lk("lockrv", k, txnh.Op{Kind: "lockrv"}),
			lk("lock-nowait", k, txnh.Op{Kind: "lock", NoWait: true}),
			step{"set(" + k + ")", []txnh.Op{op("set", k)}},
		)
	}
	s = append(s,
		lk("lock-exist", "a", txnh.Op{Kind: "lock", CheckExist: true}),
		lk("lock-onlyifexists", "b", txnh.Op{Kind: "lockrv", OnlyExist: true}),
		step{"lock(a,b)", []txnh.Op{{Kind: "lock", Keys: []string{"a", "b"}}}},
		step{"lock-wait10ms(a)", []txnh.Op{{Kind: "lock", Key: "a", WaitMS: 10}}},
		step{"lock-wait10ms(a,b)", []txnh.Op{{Kind: "lock", Keys: []string{"a", "b"}, WaitMS: 10}}},
		step{"lock-noretry(a,b)", []txnh.Op{{Kind: "lock", Keys: []string{"a", "b"}, NoRetry: true}}},
		step{"insert(b);lock(a,b)", []txnh.Op{op("insert", "b"), {Kind: "lock", Keys: []string{"a", "b"}}}},
		step{"insert(b);lock(b)", []txnh.Op{op("insert", "b"), op("lock", "b")}},
		step{"delete(a)", []txnh.Op{op("delete", "a")}},
		step{"aggr{lockrv(a)}done", []txnh.Op{{Kind: "aggr-start"}, op("lockrv", "a"), {Kind: "aggr-done"}}},
		step{"aggr{lockrv(a);retry;lockrv(b)}done", []txnh.Op{{Kind: "aggr-start"}, op("lockrv", "a"), {Kind: "aggr-retry"}, op("lockrv", "b"), {Kind: "aggr-done"}}},
		step{"aggr{lockrv(a);retry;lockrv(a)}done", []txnh.Op{{Kind: "aggr-start"}, op("lockrv", "a"), {Kind: "aggr-retry"}, op("lockrv", "a"), {Kind: "aggr-done"}}},
		step{"aggr{lockrv(b)}cancel", []txnh.Op{{Kind: "aggr-start"}, op("lockrv", "b"), {Kind: "aggr-cancel"}}},
		step{"aggr{lockrv(a);retry}cancel", []txnh.Op{{Kind: "aggr-start"}, op("lockrv", "a"), {Kind: "aggr-retry"}, {Kind: "aggr-cancel"}}},
	)
	return s
}

func optSteps() []step {
	return []step{
		{"set(a)", []txnh.Op{op("set", "a")}},
		{"set(b)", []txnh.Op{op("set", "b")}},
		{"insert(a)", []txnh.Op{op("insert", "a")}},
		{"delete(b)", []txnh.Op{op("delete", "b")}},
		{"lock(a)", []txnh.Op{op("lock", "a")}},
		{"insert(b);delete(b)", []txnh.Op{op("insert", "b"), op("delete", "b")}},
	}
}

type prog struct {
	name string
	ops  []txnh.Op
}

func programs(steps []step, depth int) []prog {
	var out []prog
	var rec func(cur []int)
	rec = func(cur []int) {
		if len(cur) > 0 {
			for _, end := range []string{"commit", "rollback"} {
				var p prog
				var names []string
				for _, i := range cur {
					names = append(names, steps[i].name)
					p.ops = append(p.ops, steps[i].ops...)
				}
				p.ops = append(p.ops, txnh.Op{Kind: end})
				p.name = strings.Join(names, ";") + ";" + end
				out = append(out, p)
			}
		}
		if len(cur) == depth {
			return
		}
		for i := range steps {
			rec(append(cur, i))
		}
	}
	rec(nil)
	return out
}

func main() {
	txnh.Init()
	run := ev.Start("C06", "model_checking")
	keys := []string{"a", "b"}
	depth, P := 2, 1
	budget := 160 * time.Second
	if run.Thorough() {
		depth, P = 3, 1
		budget = 35 * time.Minute
	}
	if s := os.Getenv("VERIF_BUDGET_S"); s != "" {
		var n int
		fmt.Sscan(s, &n)
		budget = time.Duration(n) * time.Second
	}
	commit := txnh.Op{Kind: "commit"}
	type contender struct {
		name string
		mode txnh.Mode
		ops  []txnh.Op
	}
	contenders := []contender{
		{"none", txnh.Mode{}, nil},
		{"opt:set(a)", txnh.Mode{}, []txnh.Op{op("set", "a"), commit}},
		{"opt:set(b)", txnh.Mode{}, []txnh.Op{op("set", "b"), commit}},
		{"pess:lock(a);set(a)", txnh.Mode{Pessimistic: true}, []txnh.Op{op("lock", "a"), op("set", "a"), commit}},
		{"pess:lock(b);lock(a)", txnh.Mode{Pessimistic: true}, []txnh.Op{op("lock", "b"), op("lock", "a"), op("set", "b"), commit}},
	}
	var jobs []sched.Job
	specs := map[string]func() *txnh.TxnScenario{}
	for _, bk := range common.BackendsTier(run.Thorough()) {
		modes := bk.Modes
		if bk.Name == "mocktikv" {
			// the mock implements neither async commit nor one-phase commit: it ignores the request flags, which
			// the client must treat as "the store declined" and fall back to ordinary 2PC (TiKV may decline too)
			modes = append(append([]txnh.Mode{}, modes...), txnh.Mode{OnePC: true}, txnh.Mode{Async: true})
		}
		for _, m := range modes {
			steps := optSteps()
			if m.Pessimistic {
				steps = pessSteps()
			}
			for _, lo := range []common.Layout{{Name: "split@b", Splits: []string{"b"}}} {
				d := depth
				if bk.Name == "unistore" && !run.Thorough() {
					d = 1
				}
				progs := programs(steps, d)
				if bk.Name == "unistore" && !run.Thorough() && !m.Pessimistic {
					// quick: on top of the one-step programs, the two-region writers whose 1PC / async attempt has
					// to fall back or fails in one region only
					for _, q := range programs(steps, 2) {
						switch q.name {
						case "set(a);set(b);commit", "set(b);set(a);commit", "insert(a);set(b);commit", "set(a);delete(b);commit", "set(a);set(b);rollback":
							progs = append(progs, q)
						}
					}
				}
				for _, p := range progs {
					for _, ct := range contenders {
						bk, m, lo, p, ct := bk, m, lo, p, ct
						name := fmt.Sprintf("%s/%s/%s/T=%s/C=%s", bk.Name, lo.Name, m, p.name, ct.name)
						mk := func() *txnh.TxnScenario {
							sc := &txnh.TxnScenario{
								ID:         name,
								NewBackend: func() txnh.Backend { return bk.New(lo.Splits) },
								Keys:       keys,
								Progs:      [][]txnh.Program{{{Mode: m, Ops: p.ops, KeepGoing: true}}},
							}
							if ct.ops != nil {
								sc.Progs = append(sc.Progs, []txnh.Program{{Mode: ct.mode, Ops: ct.ops}})
							}
							sc.SetupFn = func(s *txnh.TxnScenario) { common.SeedKey(s, "a", "base") }
							sc.CheckFn = leftover
							return sc
						}
						specs[name] = mk
						jobs = append(jobs, sched.Job{Name: name, Run: func(dl time.Time) sched.Report {
							sc := mk()
							x := &sched.Explorer{Sc: sc, B: sched.Bounds{P: P, F: 0, Horizon: 400, EarlyTimers: true, Deadline: dl}}
							x.Outcome = func(e *sched.Exec) string {
								t := sc.H.Txns[0]
								return t.Outcome + ":" + t.CommitErr + " " + strings.Join(t.OpErrs, ",")
							}
							return x.Explore(false)
						}})
					}
				}
			}
		}
	}
	// Region errors during the clean-up: every work-after-the-decision RPC of T (commit of secondaries,
	// BatchRollback, PessimisticRollback) may be answered with a region error - NotLeader, EpochNotMatch,
	// ServerIsBusy, StaleCommand, UndeterminedResult - or meet a real split of its region right before
	// delivery (one deviation): the request has to be retried, no lock may stay.
	{
		c := txnh.Op{Kind: "commit"}
		rb := txnh.Op{Kind: "rollback"}
		type fam struct {
			name string
			pess bool
			ops  []txnh.Op
			seed []string
		}
		fams := []fam{
			{"set(a);set(b);commit", false, []txnh.Op{op("set", "a"), op("set", "b"), c}, nil},
			{"set(b);delete(a);commit", false, []txnh.Op{op("set", "b"), op("delete", "a"), c}, nil},
			{"insert(a:exists);set(b);commit", false, []txnh.Op{op("insert", "a"), op("set", "b"), c}, []string{"a", "base"}},
			{"P:lock(a,b);set(a);set(b);commit", true, []txnh.Op{{Kind: "lock", Keys: []string{"a", "b"}}, op("set", "a"), op("set", "b"), c}, nil},
			{"P:lock(a,b);set(a);rollback", true, []txnh.Op{{Kind: "lock", Keys: []string{"a", "b"}}, op("set", "a"), rb}, nil},
			{"P:lock(a,b);set(a);commit", true, []txnh.Op{{Kind: "lock", Keys: []string{"a", "b"}}, op("set", "a"), c}, nil},
		}
		for _, bk := range common.BackendsTier(run.Thorough()) {
			for _, m := range common.ModesWithDeclined(bk) {
				for _, f := range fams {
					if f.pess != m.Pessimistic {
						continue
					}
					bk, m, f := bk, m, f
					lo := common.Layout{Name: "split@b", Splits: []string{"b"}}
					name := fmt.Sprintf("%s/%s/%s/T=%s/region-error-during-clean-up", bk.Name, lo.Name, m, f.name)
					mk := func() *txnh.TxnScenario {
						sc := &txnh.TxnScenario{ID: name, NewBackend: func() txnh.Backend { return bk.New(lo.Splits) }, Keys: keys,
							Progs: [][]txnh.Program{{{Mode: m, Ops: f.ops, KeepGoing: true}}}}
						sc.SetupFn = func(s *txnh.TxnScenario) {
							if len(f.seed) > 0 {
								common.SeedKey(s, f.seed...)
							}
						}
						sc.MenuFn = func(s *txnh.TxnScenario, e *sched.Event) []sched.Dev {
							req, _ := e.Payload.(*tikvrpc.Request)
							if e.Actor != 0 || e.Kind != sched.KRPC || req == nil {
								return nil
							}
							switch req.Type {
							case tikvrpc.CmdBatchRollback, tikvrpc.CmdPessimisticRollback:
							case tikvrpc.CmdCommit:
								if req.Commit().GetCommitRole() != kvrpcpb.CommitRole_Secondary {
									return nil
								}
							default:
								return nil
							}
							var ds []sched.Dev
							for _, d := range common.FaultMenu(s.W, e, true) {
								if d.Kind == txnh.DevRegionErr || d.Kind == txnh.DevHook {
									ds = append(ds, d)
								}
							}
							ds = append(ds, sched.Dev{Name: "undetermined-result", Kind: txnh.DevRegionErr, Arg: &errorpb.Error{Message: "injected", UndeterminedResult: &errorpb.UndeterminedResult{Message: "injected"}}})
							return ds
						}
						sc.CheckFn = leftover
						return sc
					}
					specs[name] = mk
					jobs = append(jobs, sched.Job{Name: name, Run: func(dl time.Time) sched.Report {
						sc := mk()
						x := &sched.Explorer{Sc: sc, B: sched.Bounds{P: 0, F: 1, Horizon: 400, EarlyTimers: true, Deadline: dl}}
						x.Outcome = func(e *sched.Exec) string {
							t := sc.H.Txns[0]
							devs := ""
							for _, r := range sc.W.Log() {
								if r.Dev != 0 {
									devs += fmt.Sprintf(" %s!%d", r.Cmd, r.Dev)
								}
							}
							return t.Outcome + ":" + t.CommitErr + devs
						}
						return x.Explore(false)
					}})
				}
			}
		}
	}
	if common.HandleReplay(run, jobs, func(name string) sched.Scenario {
		if mk, ok := specs[name]; ok {
			return mk()
		}
		return nil
	}, sched.Bounds{P: 99, F: 99, Horizon: 400, EarlyTimers: true}) {
		return
	}
	res := sched.RunSharded(jobs, budget)
	common.Finish(run, jobs, res, common.FinishOpts{
		Bounds: map[string]any{"program_depth_steps": depth, "preemptions": P, "faults": "0 (1 region error in the clean-up family)", "keys": keys, "layout": "split@b", "contenders": len(contenders)},
		Rule: "every program of transaction T with <= depth steps from the per-mode alphabet (set/delete/insert, lock calls: plain, return-values, no-wait, check-existence, lock-only-if-exists, multi-key; aggressive-locking stages start{...}retry{...}done/cancel) ending in commit or rollback, continuing after failed calls, x contending transaction C {none, optimistic writer of a, pessimistic locker of a, pessimistic locker of b then a (deadlock shape)}; " +
			"every interleaving of T's and C's seam events with <= P preemptions on the real client; no message is lost. Plus 6 two-region programs of T alone with one region error (NotLeader, EpochNotMatch, ServerIsBusy, StaleCommand, UndeterminedResult) or a real split at any of its clean-up RPCs (commit of secondaries, BatchRollback, PessimisticRollback). Oracle: when everything has drained, no lock of an ended transaction is in the store. distinct_nontrivial = distinct (T outcome, error list) classes",
		Assumptions: []string{
			"seam-granularity interleavings; callers end an aggressive-locking stage (done/cancel) before commit/rollback, as the API requires",
			"'drained' = no pending seam event and no one-shot virtual timer left; virtual back-off sleeps (milliseconds) elapse, lock TTLs (seconds) do not",
		},
	})
}

// leftover: once everything has drained, no lock of an ended transaction is in the store.
func leftover(s *txnh.TxnScenario, x *sched.Exec) []sched.Violation {
	if x.Horizon || x.Deadlock || sched.Running() > 0 {
		return nil // not drained: inconclusive (counted by the engine)
	}
	ended := map[uint64]*txnh.TxnRec{}
	for _, t := range s.H.Txns {
		switch t.Outcome {
		case "committed", "failed", "rolledback":
			ended[t.StartTS] = t
		}
	}
	var out []sched.Violation
	for _, l := range s.W.B.Locks() {
		if t, ok := ended[l.StartTS]; ok {
			cls := "T"
			if t.Client != 0 {
				cls = "C"
			}
			out = append(out, sched.Violation{
				Key:  fmt.Sprintf("leftover-lock:%s:%s:%s", t.Mode, t.Outcome, l.Type),
				What: fmt.Sprintf("%s transaction %s (start=%d) ended %s %q with op errors %v, all background work drained, clock not advanced past any TTL (virtual now=%v), but %s lock on %q is still in the store", cls, t.Prog, t.StartTS, t.Outcome, t.CommitErr, t.OpErrs, time.Duration(sched.NowNS()), l.Type, l.Key),
			})
		}
	}
	return out
}

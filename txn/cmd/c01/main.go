// C01: committed transactions form a snapshot-isolated, externally consistent
// history. Stateless exploration of all interleavings (<= P preemptions) of
// the seam events of 2-3 logical clients running small transaction programs
// over colliding keys, on the real client code over mocktikv / unistore.
package main

import (
	"fmt"
	"os"
	"strings"
	"time"

	"veriftxn/common"

	"github.com/pingcap/failpoint"
	_ "veriftxn/unibk"

	"github.com/tikv/client-go/v2/verifrt/ev"
	"github.com/tikv/client-go/v2/verifrt/sched"
	"github.com/tikv/client-go/v2/verifrt/txnh"
)

func op(kind, key string) txnh.Op { return txnh.Op{Kind: kind, Key: key} }

// alphabet of program steps; compound steps keep pessimistic programs well formed
// (a pessimistic transaction locks a key before it writes it).
type step struct {
	name string
	ops  []txnh.Op
	rd   []string // keys read
	wr   []string // keys written
}

// On unistore (TiDB's embedded store, outside /repo) two kinds of scans are left out: scans with an
// unbounded end see the store's own bookkeeping keys (0xff... prefix), and its reverse scan returned
// a version newer than the request's read timestamp in a probe (store-side defect, the request carried
// the right version) - so reverse scans are explored on mocktikv only.
var mockOnlySteps = map[string]bool{"iter[,+inf)": true, "riter[,c)": true, "riter[,+inf)": true}

func optSteps() []step {
	return []step{
		{"get(a)", []txnh.Op{op("get", "a")}, []string{"a"}, nil},
		{"get(b)", []txnh.Op{op("get", "b")}, []string{"b"}, nil},
		{"bget(a,b)", []txnh.Op{{Kind: "bget", Keys: []string{"a", "b"}}}, []string{"a", "b"}, nil},
		{"iter[,c)", []txnh.Op{{Kind: "iter", Hi: "c"}}, []string{"a", "b"}, nil},
		{"iter[,+inf)", []txnh.Op{{Kind: "iter"}}, []string{"a", "b"}, nil},
		{"riter[,c)", []txnh.Op{{Kind: "riter", Hi: "c"}}, []string{"a", "b"}, nil},
		{"riter[,+inf)", []txnh.Op{{Kind: "riter"}}, []string{"a", "b"}, nil},
		{"set(a)", []txnh.Op{op("set", "a")}, nil, []string{"a"}},
		{"set(b)", []txnh.Op{op("set", "b")}, nil, []string{"b"}},
		{"insert(a)", []txnh.Op{op("insert", "a")}, nil, []string{"a"}},
		{"delete(a)", []txnh.Op{op("delete", "a")}, nil, []string{"a"}},
		{"insert(b);delete(b)", []txnh.Op{op("insert", "b"), op("delete", "b")}, nil, []string{"b"}},
	}
}

func pessSteps() []step {
	return []step{
		{"get(a)", []txnh.Op{op("get", "a")}, []string{"a"}, nil},
		{"bget(a,b)", []txnh.Op{{Kind: "bget", Keys: []string{"a", "b"}}}, []string{"a", "b"}, nil},
		{"iter[,c)", []txnh.Op{{Kind: "iter", Hi: "c"}}, []string{"a", "b"}, nil},
		{"lockrv(a)", []txnh.Op{op("lockrv", "a")}, []string{"a"}, []string{"a"}},
		{"lock(a);set(a)", []txnh.Op{op("lock", "a"), op("set", "a")}, nil, []string{"a"}},
		{"lockrv(b);set(b)", []txnh.Op{op("lockrv", "b"), op("set", "b")}, []string{"b"}, []string{"b"}},
		{"lock(a);delete(a)", []txnh.Op{op("lock", "a"), op("delete", "a")}, nil, []string{"a"}},
		{"insert(a);lock(a)", []txnh.Op{op("insert", "a"), op("lock", "a")}, nil, []string{"a"}},
		{"lock(a,b);set(a);set(b)", []txnh.Op{{Kind: "lock", Keys: []string{"a", "b"}}, op("set", "a"), op("set", "b")}, nil, []string{"a", "b"}},
	}
}

func stepsOf(p prog) int { return p.nsteps }

type prog struct {
	nsteps int
	name   string
	ops    []txnh.Op
	rd, wr map[string]bool
}

func programs(steps []step, depth int) []prog {
	var out []prog
	var rec func(cur []int)
	rec = func(cur []int) {
		if len(cur) > 0 {
			p := prog{rd: map[string]bool{}, wr: map[string]bool{}}
			var names []string
			for _, i := range cur {
				s := steps[i]
				names = append(names, s.name)
				p.ops = append(p.ops, s.ops...)
				for _, k := range s.rd {
					p.rd[k] = true
				}
				for _, k := range s.wr {
					p.wr[k] = true
				}
			}
			p.nsteps = len(cur)
			p.ops = append(p.ops, txnh.Op{Kind: "commit"})
			p.name = strings.Join(names, ";")
			out = append(out, p)
		}
		if len(cur) == depth {
			return
		}
		for i := range steps {
			rec(append(cur, i))
		}
	}
	rec(nil)
	return out
}

// collide: some key written by one program is read or written by the other.
func collide(a, b prog) bool {
	for k := range a.wr {
		if b.rd[k] || b.wr[k] {
			return true
		}
	}
	for k := range b.wr {
		if a.rd[k] {
			return true
		}
	}
	return false
}

type layout struct {
	name   string
	splits []string
}

func main() {
	txnh.Init()
	run := ev.Start("C01", "model_checking")
	keys := []string{"a", "b"}
	budget := 170 * time.Second
	if run.Thorough() {
		budget = 40 * time.Minute
	}
	if s := os.Getenv("VERIF_BUDGET_S"); s != "" {
		var n int
		fmt.Sscan(s, &n)
		budget = time.Duration(n) * time.Second
	}
	layouts := []layout{{"1region", nil}, {"split@b", []string{"b"}}}
	type modeSet struct {
		mode  txnh.Mode
		steps []step
	}
	var jobs []sched.Job
	specs := map[string]*txnh.TxnScenario{}
	addJobs := func(bk common.BackendSpec, ms modeSet, depthA, depthB, P int, seed bool) {
		ps := programs(ms.steps, depthA)
		for _, lo := range layouts {
			for i := range ps {
				for j := range ps {
					// client B's program has at most depthB steps; when both fit in depthB the pair is symmetric: keep i<=j
					if stepsOf(ps[j]) > depthB || (stepsOf(ps[i]) <= depthB && j < i) {
						continue
					}
					if !collide(ps[i], ps[j]) {
						continue
					}
					pa, pb := ps[i], ps[j]
					lo := lo
					name := fmt.Sprintf("%s/%s/%s/P%d/%s || %s", bk.Name, lo.name, ms.mode, P, pa.name, pb.name)
					mk := func() *txnh.TxnScenario {
						sc := &txnh.TxnScenario{
							ID:         name,
							NewBackend: func() txnh.Backend { return bk.New(lo.splits) },
							Keys:       keys,
							Progs: [][]txnh.Program{
								{{Mode: ms.mode, Ops: pa.ops}},
								{{Mode: ms.mode, Ops: pb.ops}},
							},
						}
						if seed {
							// a committed base version of key a, so that reads / deletes / inserts meet data
							sc.SetupFn = func(s *txnh.TxnScenario) { common.SeedKey(s, "a", "base") }
						}
						sc.CheckFn = func(s *txnh.TxnScenario, x *sched.Exec) []sched.Violation {
							t := txnh.ReadTruth(s.W.B, s.Keys)
							t.Splits, t.Log = lo.splits, s.W.Log()
							return txnh.AuditSI(s.H, t)
						}
						return sc
					}
					specs[name] = mk()
					jobs = append(jobs, sched.Job{Name: name, Run: func(dl time.Time) sched.Report {
						sc := mk()
						x := &sched.Explorer{Sc: sc, B: sched.Bounds{P: P, F: 0, Horizon: 400, EarlyTimers: true, Deadline: dl}}
						x.Outcome = func(*sched.Exec) string { return sc.OutcomeString() }
						return x.Explore(false)
					}})
				}
			}
		}
	}
	type suite struct {
		backend        string
		modes          func(m txnh.Mode) bool
		depthA, depthB int
		P              int
	}
	asyncOnly := func(m txnh.Mode) bool { return m.Async || m.OnePC }
	all := func(m txnh.Mode) bool { return true }
	suites := []suite{
		{"mocktikv", all, 1, 1, 2},
		{"mocktikv", all, 2, 1, 1},
		{"unistore", asyncOnly, 1, 1, 1},
	}
	if run.Thorough() {
		suites = []suite{
			{"mocktikv", all, 2, 2, 2},
			{"unistore", all, 1, 1, 2},
			{"unistore", asyncOnly, 2, 1, 2},
		}
	}
	var suiteDesc []string
	for _, su := range suites {
		suiteDesc = append(suiteDesc, fmt.Sprintf("%s depth(%d,%d) P=%d", su.backend, su.depthA, su.depthB, su.P))
		for _, bk := range common.Backends() {
			if bk.Name != su.backend {
				continue
			}
			for _, m := range bk.Modes {
				if !su.modes(m) {
					continue
				}
				ms := modeSet{mode: m, steps: optSteps()}
				if m.Pessimistic {
					ms.steps = pessSteps()
				}
				if bk.Name != "mocktikv" {
					var keep []step
					for _, st := range ms.steps {
						if !mockOnlySteps[st.name] {
							keep = append(keep, st)
						}
					}
					ms.steps = keep
				}
				addJobs(bk, ms, su.depthA, su.depthB, su.P, true)
			}
		}
	}
	// Three clients (thorough): all multisets of three single-step programs on mocktikv, P=2.
	if run.Thorough() {
		for _, bk := range common.Backends() {
			if bk.Name != "mocktikv" {
				continue
			}
			for _, m := range bk.Modes {
				steps := optSteps()
				if m.Pessimistic {
					steps = pessSteps()
				}
				ps := programs(steps, 1)
				for _, lo := range layouts {
					for i := range ps {
						for j := i; j < len(ps); j++ {
							for k := j; k < len(ps); k++ {
								if !(collide(ps[i], ps[j]) || collide(ps[i], ps[k]) || collide(ps[j], ps[k])) {
									continue
								}
								bk, m, lo, pa, pb, pc := bk, m, lo, ps[i], ps[j], ps[k]
								name := fmt.Sprintf("%s/%s/%s/P2/3clients: %s || %s || %s", bk.Name, lo.name, m, pa.name, pb.name, pc.name)
								mk := func() *txnh.TxnScenario {
									sc := &txnh.TxnScenario{ID: name, NewBackend: func() txnh.Backend { return bk.New(lo.splits) }, Keys: keys,
										Progs: [][]txnh.Program{{{Mode: m, Ops: pa.ops}}, {{Mode: m, Ops: pb.ops}}, {{Mode: m, Ops: pc.ops}}}}
									sc.SetupFn = func(s *txnh.TxnScenario) { common.SeedKey(s, "a", "base") }
									sc.CheckFn = func(s *txnh.TxnScenario, x *sched.Exec) []sched.Violation {
										t := txnh.ReadTruth(s.W.B, s.Keys)
										t.Splits, t.Log = lo.splits, s.W.Log()
										return txnh.AuditSI(s.H, t)
									}
									return sc
								}
								specs[name] = mk()
								jobs = append(jobs, sched.Job{Name: name, Run: func(dl time.Time) sched.Report {
									sc := mk()
									x := &sched.Explorer{Sc: sc, B: sched.Bounds{P: 2, F: 0, Horizon: 500, EarlyTimers: true, Deadline: dl}}
									x.Outcome = func(*sched.Exec) string { return sc.OutcomeString() }
									return x.Explore(false)
								}})
							}
						}
					}
				}
			}
		}
		suiteDesc = append(suiteDesc, "mocktikv 3 clients depth(1,1,1) P=2")
	}
	// Focus suite: a two-key writer spanning two regions against readers that read both keys in either
	// order, with two preemptions: the shape in which a commit timestamp that ignores part of the prewrite
	// answers (min-commit-ts of a secondary batch, a pushed min-commit-ts) tears a reader's snapshot.
	{
		wr := []prog{}
		rd := []prog{}
		for _, p := range programs(optSteps(), 2) {
			switch p.name {
			case "set(a);set(b)":
				wr = append(wr, p)
			case "set(b);set(a)", "get(a);get(b)", "iter[,c)":
				if run.Thorough() {
					if p.name == "set(b);set(a)" {
						wr = append(wr, p)
					} else {
						rd = append(rd, p)
					}
				}
			case "bget(a,b)", "get(b);get(a)":
				rd = append(rd, p)
			}
		}
		for _, bk := range common.BackendsTier(run.Thorough()) {
			for _, m := range bk.Modes {
				if m.Pessimistic || (!run.Thorough() && m.OnePC) {
					continue
				}
				for _, w := range wr {
					for _, r := range rd {
						bk, m, w, r := bk, m, w, r
						name := fmt.Sprintf("%s/split@b/%s/P2/focus: %s || %s", bk.Name, m, w.name, r.name)
						mk := func() *txnh.TxnScenario {
							sc := &txnh.TxnScenario{ID: name, NewBackend: func() txnh.Backend { return bk.New([]string{"b"}) }, Keys: keys,
								Progs: [][]txnh.Program{{{Mode: m, Ops: w.ops}}, {{Mode: txnh.Mode{}, Ops: r.ops}}}}
							sc.SetupFn = func(s *txnh.TxnScenario) { common.SeedKey(s, "a", "base", "b", "base") }
							sc.CheckFn = func(s *txnh.TxnScenario, x *sched.Exec) []sched.Violation {
								t := txnh.ReadTruth(s.W.B, s.Keys)
								t.Splits, t.Log = []string{"b"}, s.W.Log()
								return txnh.AuditSI(s.H, t)
							}
							return sc
						}
						specs[name] = mk()
						jobs = append(jobs, sched.Job{Name: name, Run: func(dl time.Time) sched.Report {
							sc := mk()
							x := &sched.Explorer{Sc: sc, B: sched.Bounds{P: 2, F: 0, Horizon: 400, EarlyTimers: true, Deadline: dl}}
							x.Outcome = func(*sched.Exec) string { return sc.OutcomeString() }
							return x.Explore(false)
						}})
					}
				}
			}
		}
		suiteDesc = append(suiteDesc, "focus: two-key writer x both-key readers, split@b, all optimistic modes, P=2")
	}
	// Topology suite: the same writer / reader pairs (and a pessimistic locking writer) while the
	// topology changes under them: one deviation per execution out of {a real split of the target
	// region right before the request is delivered, NotLeader, EpochNotMatch} at any RPC of either
	// client, plus one preemption.
	{
		type pair struct {
			name   string
			wr, rd []txnh.Op
		}
		pairs := []pair{
			{"set(a);set(b) || bget(a,b)", []txnh.Op{op("set", "a"), op("set", "b"), op("commit", "")}, []txnh.Op{{Kind: "bget", Keys: []string{"a", "b"}}, op("commit", "")}},
			{"set(a);set(b) || get(b);get(a)", []txnh.Op{op("set", "a"), op("set", "b"), op("commit", "")}, []txnh.Op{op("get", "b"), op("get", "a"), op("commit", "")}},
			{"set(a);delete(b) || iter[,c)", []txnh.Op{op("set", "a"), op("delete", "b"), op("commit", "")}, []txnh.Op{{Kind: "iter", Lo: "", Hi: "c"}, op("commit", "")}},
		}
		tlayouts := layouts
		if !run.Thorough() {
			// quick: the split itself produces the two-region layout; two pairs
			tlayouts = layouts[:1]
			pairs = []pair{pairs[0], pairs[2]}
		}
		if run.Thorough() {
			pairs = append(pairs, pair{"insert(b);set(a) || set(b)", []txnh.Op{op("insert", "b"), op("set", "a"), op("commit", "")}, []txnh.Op{op("set", "b"), op("commit", "")}})
		}
		for _, bk := range common.BackendsTier(run.Thorough()) {
			for _, m := range bk.Modes {
				if m.Pipelined {
					continue
				}
				for _, lo := range tlayouts {
					for _, pr := range pairs {
						bk, m, lo, pr := bk, m, lo, pr
						wops := pr.wr
						if m.Pessimistic {
							// a pessimistic writer locks what it writes first
							wops = append([]txnh.Op{{Kind: "lock", Keys: []string{"a", "b"}}}, pr.wr...)
						}
						name := fmt.Sprintf("%s/%s/%s/P1F1/topology: %s", bk.Name, lo.name, m, pr.name)
						mk := func() *txnh.TxnScenario {
							sc := &txnh.TxnScenario{ID: name, NewBackend: func() txnh.Backend { return bk.New(lo.splits) }, Keys: keys,
								Progs: [][]txnh.Program{{{Mode: m, Ops: wops}}, {{Mode: txnh.Mode{}, Ops: pr.rd}}}}
							sc.SetupFn = func(s *txnh.TxnScenario) { common.SeedKey(s, "a", "base", "b", "base") }
							sc.MenuFn = func(s *txnh.TxnScenario, e *sched.Event) []sched.Dev {
								var ds []sched.Dev
								for _, d := range common.FaultMenu(s.W, e, true) {
									if d.Kind == txnh.DevHook || d.Name == "not-leader" || (run.Thorough() && d.Name == "epoch-not-match") {
										ds = append(ds, d)
									}
								}
								return ds
							}
							sc.CheckFn = func(s *txnh.TxnScenario, x *sched.Exec) []sched.Violation {
								t := txnh.ReadTruth(s.W.B, s.Keys)
								t.Splits, t.Log = lo.splits, s.W.Log()
								return txnh.AuditSI(s.H, t)
							}
							return sc
						}
						specs[name] = mk()
						jobs = append(jobs, sched.Job{Name: name, Run: func(dl time.Time) sched.Report {
							sc := mk()
							x := &sched.Explorer{Sc: sc, B: sched.Bounds{P: 1, F: 1, Horizon: 400, EarlyTimers: true, Deadline: dl}}
							x.Outcome = func(*sched.Exec) string { return sc.OutcomeString() }
							return x.Explore(false)
						}})
					}
				}
			}
		}
		suiteDesc = append(suiteDesc, fmt.Sprintf("topology: %d two-key writer x reader pairs, every mode, %d layout(s), P=1, one deviation of {real split before delivery, NotLeader (thorough: + injected EpochNotMatch)} at any RPC of either client", len(pairs), len(tlayouts)))
	}
	// Stale clean-up suite: a locking call of T fails (no-wait against a holder), which schedules an
	// asynchronous pessimistic rollback; T then locks the same key again with a newer for-update ts. The
	// library's own delay hook (failpoint beforeAsyncPessimisticRollback = "delay": a virtual sleep at the
	// start of the clean-up goroutine) makes the start of that goroutine a scheduling decision, so the
	// clean-up can run after the second locking call. The other client runs two transactions on the key:
	// the holder, and one that must not get in while T holds its lock.
	{
		lockSet := func(k string) []txnh.Op { return []txnh.Op{op("lock", k), op("set", k), op("commit", "")} }
		tOps := []txnh.Op{{Kind: "lock", Key: "a", NoWait: true}, op("lock", "a"), op("set", "a"), op("commit", "")}
		for _, bk := range common.BackendsTier(run.Thorough()) {
			for _, m := range bk.Modes {
				if !m.Pessimistic {
					continue
				}
				bk, m := bk, m
				name := fmt.Sprintf("%s/1region/%s/P3/stale-cleanup: lock-nowait(a);lock(a);set(a) || lock(a);set(a) ; lock(a);set(a)", bk.Name, m)
				mk := func() *txnh.TxnScenario {
					sc := &txnh.TxnScenario{ID: name, NewBackend: func() txnh.Backend { return bk.New(nil) }, Keys: keys,
						Progs: [][]txnh.Program{{{Mode: m, Ops: tOps, KeepGoing: true}}, {{Mode: m, Ops: lockSet("a")}, {Mode: m, Ops: lockSet("a")}}}}
					sc.SetupFn = func(s *txnh.TxnScenario) {
						common.SeedKey(s, "a", "base")
						failpoint.Enable("tikvclient/beforeAsyncPessimisticRollback", `return("delay")`)
					}
					sc.CheckFn = func(s *txnh.TxnScenario, x *sched.Exec) []sched.Violation {
						failpoint.Disable("tikvclient/beforeAsyncPessimisticRollback")
						t := txnh.ReadTruth(s.W.B, s.Keys)
						t.Log = s.W.Log()
						return txnh.AuditSI(s.H, t)
					}
					return sc
				}
				specs[name] = mk()
				jobs = append(jobs, sched.Job{Name: name, Run: func(dl time.Time) sched.Report {
					sc := mk()
					x := &sched.Explorer{Sc: sc, B: sched.Bounds{P: 3, F: 0, Horizon: 400, EarlyTimers: true, Deadline: dl}}
					x.Outcome = func(*sched.Exec) string { return sc.OutcomeString() + " " + strings.Join(sc.H.Txns[0].OpErrs, ",") }
					return x.Explore(false)
				}})
			}
		}
		suiteDesc = append(suiteDesc, "stale clean-up: failed no-wait lock + re-lock of the same key with the asynchronous pessimistic rollback delayed by the library's failpoint hook (virtual sleep), against a holder and a later locker, P=3")
	}
	if common.HandleReplay(run, jobs, func(name string) sched.Scenario {
		if s, ok := specs[name]; ok {
			return s
		}
		return nil
	}, sched.Bounds{P: 99, F: 99, Horizon: 400, EarlyTimers: true}) {
		return
	}
	res := sched.RunSharded(jobs, budget)
	common.Finish(run, jobs, res, common.FinishOpts{
		Bounds: map[string]any{"clients": 2, "txns_per_client": 1, "suites": suiteDesc, "faults": "0 (1 topology deviation in the topology suite)", "keys": keys, "layouts": []string{"1region", "split@b"}},
		Rule: "every pair of transaction programs (<= depth steps each from the per-mode alphabet, symmetric duplicates removed, pairs without a write/read or write/write collision dropped) x layouts x commit modes x backends; " +
			"for each, every interleaving of the seam events (TSO requests, store RPCs incl. background ones, API call boundaries, virtual back-off timers) with at most P preemptions is executed on the real client code; " +
			"the SI auditor checks every execution against the MVCC ground truth read from the store. distinct_nontrivial = distinct (scenario, outcome+read-results) classes with at least one conflict-capable pair",
		Assumptions: []string{
			"interleavings are enumerated at seam granularity (RPC / TSO / API boundary / virtual timer); goroutines of one client between two seam points are not permuted",
			"pessimistic programs lock a key before writing it; for such a key the transaction's interval starts at the lock's for-update ts",
			"a timestamp is assigned when the TSO request is released by the explorer (one linearisation point per request)",
			"mocktikv implements only the 2PC path; async commit / 1PC are explored on unistore (trusted as TiKV semantics) when that backend is compiled in",
		},
	})
}

package main

import (
	"fmt"
	"os"
	"time"

	"github.com/tikv/client-go/v2/verifrt/sched"
	"github.com/tikv/client-go/v2/verifrt/txnh"
)

type sc struct {
	progs [][]txnh.Program
	keys  []string
	w     *txnh.World
	h     *txnh.History
}

func (s *sc) Name() string { return "probe" }
func (s *sc) Setup() {
	b := txnh.NewMockBackend(1)
	s.w = txnh.NewWorld(b, len(s.progs))
	s.h = &txnh.History{}
	for i, ps := range s.progs {
		c := s.w.Clients[i]
		recs := txnh.NewRecs(s.h, i, ps)
		ps := ps
		sched.Go(fmt.Sprint("client", i), func() { c.RunPrograms(s.h, ps, recs) })
	}
}
func (s *sc) Menu(e *sched.Event) []sched.Dev { return nil }
func (s *sc) Extra() []sched.Choice          { return nil }
func (s *sc) StateKey() string               { return "" }
func (s *sc) Check(x *sched.Exec) []sched.Violation {
	t := txnh.ReadTruth(s.w.B, s.keys)
	return txnh.AuditSI(s.h, t)
}
func (s *sc) Teardown() { s.w.Close() }

func main() {
	txnh.Init()
	m := txnh.Mode{}
	p := func(ops ...txnh.Op) txnh.Program { return txnh.Program{Mode: m, Ops: ops} }
	s := &sc{keys: []string{"a", "b"}, progs: [][]txnh.Program{
		{p(txnh.Op{Kind: "get", Key: "a"}, txnh.Op{Kind: "set", Key: "a"}, txnh.Op{Kind: "commit"})},
		{p(txnh.Op{Kind: "get", Key: "a"}, txnh.Op{Kind: "set", Key: "a"}, txnh.Op{Kind: "commit"})},
	}}
	x := &sched.Explorer{Sc: s, B: sched.Bounds{P: 2, F: 0, Horizon: 300}}
	x.Outcome = func(e *sched.Exec) string {
		o := ""
		for _, t := range s.h.Txns {
			o += t.Outcome + ":" + t.CommitErr + " "
		}
		return o
	}
	t0 := time.Now()
	r := x.Explore(false)
	fmt.Printf("exec=%d trans=%d maxdepth=%d diverged=%d deadlock=%d horizon=%d noq=%d in %v spins=%d audits-mismatch=%d\n", r.Executions, r.Transitions, r.MaxDepth, r.Diverged, r.Deadlocks, r.Horizons, r.NoQuiesce, time.Since(t0), sched.QuiesceSpins, sched.AuditMismatch)
	for k, v := range r.Outcomes {
		fmt.Println("  outcome", k, v)
	}
	for _, v := range r.Violations {
		fmt.Println("VIOL", v.Key, v.Count, v.What, v.Trace)
	}
	for _, tr := range r.SampleTraces {
		fmt.Println("trace:", tr)
	}
	os.Exit(0)
}

// C14: GC lock resolution clears every old lock without changing transaction
// outcomes; the range task covers its range exactly; reads below the learned
// transaction safe point are refused.
//
// Part A (controlled scheduler): two victim transactions are crashed at every
// pair of seam points (lock populations: committed primary with unresolved
// secondaries, rolled back, pending, async-commit, pessimistic), then the real
// GC lock resolution (tikv.ResolveLocksForRange) runs as an actor with scan
// limit 1..3, optionally with a region split injected before any of its RPCs.
// Parts B-D (plain exhaustive enumeration on the real code): RunOnRange /
// DeleteRangeTask over every layout x range x concurrency x regions-per-task x
// failing sub-range; safe-point refusal of snapshot reads.
package main

import (
	"bytes"
	"context"
	"encoding/json"
	"errors"
	"fmt"
	"os"
	"sort"
	"strings"
	"sync"
	"time"

	"veriftxn/common"
	_ "veriftxn/unibk"

	tikverr "github.com/tikv/client-go/v2/error"
	"github.com/tikv/client-go/v2/kv"
	"github.com/tikv/client-go/v2/tikv"
	"github.com/tikv/client-go/v2/tikvrpc"
	"github.com/tikv/client-go/v2/txnkv/rangetask"
	"github.com/tikv/client-go/v2/verifrt/ev"
	"github.com/tikv/client-go/v2/verifrt/sched"
	"github.com/tikv/client-go/v2/verifrt/txnh"
)

func op(kind, key string) txnh.Op { return txnh.Op{Kind: kind, Key: key} }

const gcActor = 7

type gcState struct {
	started  bool
	done     bool
	err      error
	safe     uint64
	before   *txnh.Truth
	limit    uint32
	splitHit bool
}

func main() {
	txnh.Init()
	run := ev.Start("C14", "model_checking")
	keys := []string{"a", "b", "c"}
	F := 2
	budget := 240 * time.Second
	if run.Thorough() {
		F = 3
		budget = 35 * time.Minute
	}
	if s := os.Getenv("VERIF_BUDGET_S"); s != "" {
		var n int
		fmt.Sscan(s, &n)
		budget = time.Duration(n) * time.Second
	}
	commit := txnh.Op{Kind: "commit"}
	type victim struct {
		name string
		pess bool
		ops  []txnh.Op
	}
	v0s := []victim{
		{"set(a);set(b)", false, []txnh.Op{op("set", "a"), op("set", "b"), commit}},
		{"set(a);delete(b);set(c)", false, []txnh.Op{op("set", "a"), op("delete", "b"), op("set", "c"), commit}},
		{"P:lock(b);set(b);lock(a);set(a)", true, []txnh.Op{op("lock", "b"), op("set", "b"), op("lock", "a"), op("set", "a"), commit}},
	}
	v1s := []victim{
		{"set(c)", false, []txnh.Op{op("set", "c"), commit}},
		// (no lock-only keys: unistore keeps no commit record for them, so a second status check
		// of an already resolved lock-only secondary looks like a missing lock there)
		{"P:lock(c);set(c);lock-nowait(b);set(b)", true, []txnh.Op{op("lock", "c"), op("set", "c"), {Kind: "lock", Key: "b", NoWait: true}, op("set", "b"), commit}},
	}
	var jobs []sched.Job
	specs := map[string]func() *txnh.TxnScenario{}
	for _, bk := range common.BackendsTier(run.Thorough()) {
		for _, m := range bk.Modes {
			if m.Pessimistic {
				continue // the lock mode is chosen per victim; m selects the commit protocol
			}
			for _, v0 := range v0s {
				for _, v1 := range v1s {
					for _, lo := range common.Layouts(run.Thorough()) {
						for _, limit := range []uint32{1, 2, 3} {
							if bk.Name == "unistore" && !run.Thorough() && (limit != 2 || lo.Name != "1region") {
								continue // quick: the scan-limit / layout grid is explored on the mock; unistore adds the async / 1PC lock kinds
							}
							bk, m, v0, v1, lo, limit := bk, m, v0, v1, lo, limit
							name := fmt.Sprintf("%s/%s/%s/V0=%s/V1=%s/limit=%d", bk.Name, lo.Name, m, v0.name, v1.name, limit)
							mk := func() *txnh.TxnScenario {
								g := &gcState{limit: limit}
								m0, m1 := m, m
								m0.Pessimistic, m1.Pessimistic = v0.pess, v1.pess
								sc := &txnh.TxnScenario{ID: name, NewBackend: func() txnh.Backend { return bk.New(lo.Splits) }, Keys: keys,
									Progs: [][]txnh.Program{{{Mode: m0, Ops: v0.ops, KeepGoing: true}}, {{Mode: m1, Ops: v1.ops, KeepGoing: true}}}}
								sc.SetupFn = func(s *txnh.TxnScenario) { *g = gcState{limit: limit}; common.SeedKey(s, "b", "base") }
								sc.MenuFn = func(s *txnh.TxnScenario, e *sched.Event) []sched.Dev {
									if e.Actor == gcActor {
										if e.Kind != sched.KRPC || g.splitHit {
											return nil
										}
										req, _ := e.Payload.(*tikvrpc.Request)
										if req == nil || (req.Type != tikvrpc.CmdScanLock && req.Type != tikvrpc.CmdResolveLock) {
											return nil
										}
										// a region split right before a ScanLock / ResolveLock of the GC pass
										var ds []sched.Dev
										for _, k := range []string{"b", "c"} {
											k := k
											ds = append(ds, sched.Dev{Name: "split@" + k, Kind: txnh.DevHook, Arg: func() { g.splitHit = true; s.W.B.SplitAt([]byte(k)) }})
										}
										return ds
									}
									if g.started || s.W.Crashed(e.Actor) || e.Actor > 1 {
										return nil
									}
									switch e.Kind {
									case sched.KRPC:
										return []sched.Dev{{Name: "crash-undelivered", Kind: txnh.DevCrash}, {Name: "crash-delivered", Kind: txnh.DevCrashDlv}}
									case sched.KTSO:
										return []sched.Dev{{Name: "crash", Kind: txnh.DevCrash}}
									}
									return nil
								}
								sc.ExtraFn = func(s *txnh.TxnScenario) []sched.Choice {
									if g.started {
										return nil
									}
									// GC may start only when no transaction below the safe point is alive:
									// every victim has ended or crashed and none of their events is pending
									for i := 0; i < 2; i++ {
										o := s.H.Txns[i].Outcome
										if !s.W.Crashed(i) && (o == "open" || o == "unstarted") {
											return nil
										}
									}
									if sched.PendingOf(0)+sched.PendingOf(1) > 0 {
										return nil
									}
									return []sched.Choice{{Key: fmt.Sprintf("gc-start(limit=%d)", limit), Fn: func() {
										g.started = true
										g.before = txnh.ReadTruth(s.W.B, keys)
										sched.Advance(time.Hour) // GC runs long after the victims
										var c *txnh.Client
										sched.Sync(func() { c = s.W.AddClientActor(gcActor) })
										sched.Go("gc", func() {
											sp, err := c.Store.CurrentTimestamp("global")
											if err != nil {
												g.err, g.done = err, true
												return
											}
											g.safe = sp
											_, g.err = tikv.ResolveLocksForRange(context.Background(), tikv.NewRegionLockResolver("verif-gc", c.Store), sp, nil, nil, tikv.NewGcResolveLockMaxBackoffer, limit)
											g.done = true
										})
									}}}
								}
								sc.CheckFn = func(s *txnh.TxnScenario, x *sched.Exec) []sched.Violation {
									if !g.done {
										return nil // GC not reached / not finished (horizon): inconclusive
									}
									var out []sched.Violation
									add := func(key, format string, a ...any) {
										out = append(out, sched.Violation{Key: key, What: fmt.Sprintf(format, a...)})
									}
									if g.err != nil {
										return nil // GC reported failure: the property speaks about a successful GC
									}
									if os.Getenv("VERIF_DEBUG") != "" {
										for _, r := range s.W.Log() {
											if r.Client == gcActor {
												fmt.Fprintf(os.Stderr, "  GC #%d %s req=%v\n      resp=%v err=%v\n", r.Seq, r.Label, r.Req.Req, r.Resp, r.Err)
											}
										}
									}
									after := txnh.ReadTruth(s.W.B, keys)
									for _, l := range after.Locks {
										if l.StartTS <= g.safe {
											add("gc:lock-left-behind", "GC to safe point %d (scan limit %d) succeeded but a %s lock of start ts %d on %q remains", g.safe, limit, l.Type, l.StartTS, l.Key)
										}
									}
									for i := 0; i < 2; i++ {
										v := s.H.Txns[i]
										if v.StartTS == 0 {
											continue
										}
										// keys carrying a version of the victim before / after
										verOf := func(t *txnh.Truth) (map[string]uint64, bool) {
											m := map[string]uint64{}
											for _, k := range keys {
												for _, ver := range t.Versions[k] {
													if ver.StartTS == v.StartTS && ver.Type != "rollback" {
														m[k] = ver.CommitTS
													}
												}
											}
											return m, len(m) > 0
										}
										bm, bc := verOf(g.before)
										am, ac := verOf(after)
										for k, ts := range bm {
											if am[k] != ts {
												add("gc:committed-version-changed", "victim %s: key %q was committed at %d before GC, afterwards %d", v.Prog, k, ts, am[k])
											}
										}
										if bc && !ac {
											add("gc:committed-became-uncommitted", "victim %s was committed before GC and is not afterwards", v.Prog)
										}
										cts := map[uint64]bool{}
										for _, ts := range am {
											cts[ts] = true
										}
										if len(cts) > 1 {
											add("gc:two-commit-ts", "victim %s has commit timestamps %v after GC", v.Prog, cts)
										}
										if ac {
											for k, w := range v.Writes {
												if w.Del && w.Insert {
													continue
												}
												if _, ok := am[k]; !ok {
													add("gc:partial-commit", "victim %s (start=%d) is committed on %v after GC but key %q has no version of it", v.Prog, v.StartTS, am, k)
												}
											}
										}
										switch v.Outcome {
										case "committed":
											if !ac && len(v.Writes) > 0 {
												add("gc:acked-commit-lost", "victim %s had been told success but is not committed after GC", v.Prog)
											}
										case "failed", "rolledback":
											if ac {
												add("gc:failed-txn-committed", "victim %s had ended %s but GC committed it", v.Prog, v.Outcome)
											}
										}
									}
									return out
								}
								return sc
							}
							specs[name] = mk
							jobs = append(jobs, sched.Job{Name: name, Run: func(dl time.Time) sched.Report {
								sc := mk()
								x := &sched.Explorer{Sc: sc, B: sched.Bounds{P: 0, F: F, Horizon: 300, EarlyTimers: false, Deadline: dl}}
								x.Outcome = func(e *sched.Exec) string {
									var cr []string
									for _, k := range e.Trace {
										if strings.Contains(k, "!crash") || strings.Contains(k, "!split") {
											cr = append(cr, k)
										}
									}
									return sc.H.Txns[0].Outcome + "/" + sc.H.Txns[1].Outcome + " " + strings.Join(cr, " ")
								}
								return x.Explore(false)
							}})
						}
					}
				}
			}
		}
	}
	// GC as the explored recovery actor of one dead 3-key transaction (common.ExploredRecoveryWith "gc"):
	// one preemption inside the GC pass, so that the answers to the concurrent status checks of its
	// async-commit recovery (CheckSecondaryLocks per region) arrive in either order.
	for _, er := range common.ExploredRecoveryWith(run.Thorough(), keys, "gc") {
		if !run.Thorough() && !(strings.Contains(er.Name, "async") && strings.Contains(er.Name, "split@b,c")) {
			continue
		}
		er := er
		mk := func() *txnh.TxnScenario {
			sc := er.Make()
			sc.CheckFn = func(s *txnh.TxnScenario, x *sched.Exec) []sched.Violation {
				if !common.GCDone || common.GCErr != nil {
					return nil // GC not finished (horizon) or reported failure: not judged
				}
				var out []sched.Violation
				for _, l := range s.W.B.Locks() {
					out = append(out, sched.Violation{Key: "gc:lock-left-behind", What: fmt.Sprintf("GC succeeded but a %s lock of start ts %d on %q remains", l.Type, l.StartTS, l.Key)})
				}
				vs, _, _ := common.AuditVictimR(s, x, 0, "", "reader-gc")
				for _, sv := range vs {
					sv.Key = "gc:" + sv.Key
					out = append(out, sv)
				}
				return out
			}
			return sc
		}
		specs[er.Name] = mk
		jobs = append(jobs, sched.Job{Name: er.Name, Run: func(dl time.Time) sched.Report {
			sc := mk()
			x := &sched.Explorer{Sc: sc, B: sched.Bounds{P: 1, F: 2, Horizon: 500, EarlyTimers: false, Deadline: dl}}
			x.Outcome = func(e *sched.Exec) string { return sc.H.Txns[0].Outcome + fmt.Sprint(len(sc.W.Log())) }
			return x.Explore(false)
		}})
	}
	if gridReplay(run) {
		return
	}
	if common.HandleReplay(run, jobs, func(name string) sched.Scenario {
		if mk, ok := specs[name]; ok {
			return mk()
		}
		return nil
	}, sched.Bounds{P: 99, F: 99, Horizon: 600}) {
		return
	}
	extra := map[string]any{}
	if os.Getenv("VERIF_WORKER") == "" {
		// parts B-D run in the coordinator process (no scheduler involved)
		rangeTaskPart(run, extra)
		deleteRangeTopologyPart(run, extra, run.Tier == "thorough")
		safePointPart(run, extra)
	}
	res := sched.RunSharded(jobs, budget)
	common.Finish(run, jobs, res, common.FinishOpts{
		Bounds: map[string]any{"faults": F, "scan_limits": []int{1, 2, 3}, "keys": keys, "range_task": extra},
		Rule: "A: two victim transactions (shapes x lock modes x commit protocols) crashed at every combination of seam events within the fault budget (each crash and each split costs one), then tikv.ResolveLocksForRange as an actor with scan limit 1..3 and an optional region split before any ScanLock/ResolveLock RPC; after a successful pass: no lock <= safe point anywhere, versions committed before are unchanged, every victim all-or-nothing with one commit ts and consistent with its acknowledgement. " +
			"A2: one dead 3-key transaction (crash at any seam event) and GC as the explored recovery actor with one preemption inside the pass (the answers to the concurrent status checks of its async-commit recovery in either order); " +
			"B: rangetask.Runner.RunOnRange with a recording handler over all layouts of <= 3 split keys x all (start,end) incl. unbounded x concurrency {1,3} x regions-per-task {1,2} x failing sub-range index, and x the handler call during which the caller cancels its context (a nil result still has to mean full coverage); C: DeleteRangeTask over the same grid against a map model; C2: DeleteRangeTask on 8 keys over all layouts x ranges x concurrency {1,3} with one (thorough: two) region split(s) injected at the RPC seam right before the first DeleteRange request whose range strictly contains the split key is delivered (the store answers EpochNotMatch and the task must retry that piece), exactly the keys of [start,end) removed; D: snapshot Get/BatchGet/Iter/IterReverse at ts in {sp-1, sp, sp+1} after UpdateTxnSafePointCache(sp); D2: the same four read paths at a ts below a safe point that the store learns (with and without the MVCC GC actually running) between the call and the delivery of the first read RPC: must be refused. distinct_nontrivial = distinct (victim outcomes, crash/split positions) classes",
		Assumptions: []string{
			"GC starts only after every transaction below the safe point has ended or crashed (the GC contract)",
			"a GC pass that reports an error is not judged (the property speaks about a successful GC)",
			"seam-granularity interleavings; victims run one after the other (P=0), the crash points of both are enumerated",
		},
	})
}

// ---- parts B, C: range task ----

func rangeTaskPart(run *ev.Run, extra map[string]any) {
	pool := []string{"a", "b", "c", "d"}
	bounds := []string{"", "a", "b", "bb", "c", "d", "e"}
	var layouts [][]string
	for mask := 0; mask < 8; mask++ {
		var l []string
		for i, k := range []string{"b", "c", "d"} {
			if mask&(1<<i) != 0 {
				l = append(l, k)
			}
		}
		layouts = append(layouts, l)
	}
	cases, delCases := 0, 0
	for _, lo := range layouts {
		b := txnh.NewMockBackend(1, lo...)
		w := txnh.NewWorld(b, 1)
		st := w.Clients[0].Store
		for _, s := range bounds {
			for _, e := range bounds {
				if e != "" && s >= e {
					continue
				}
				for _, conc := range []int{1, 3} {
					for _, rpt := range []int{1, 2} {
						for fail := -1; fail < 3; fail++ {
							cases++
							rangeTaskCase(run, st, gridCase{Part: "B", Layout: lo, S: s, E: e, Conc: conc, RPT: rpt, Fail: fail})
						}
						for cancel := 1; cancel <= 3; cancel++ {
							cases++
							rangeTaskCase(run, st, gridCase{Part: "B", Layout: lo, S: s, E: e, Conc: conc, RPT: rpt, Fail: -1, Cancel: cancel})
						}
					}
				}
			}
		}
		// C: delete range
		for _, s := range bounds {
			for _, e := range bounds {
				if e != "" && s >= e {
					continue
				}
				for _, conc := range []int{1, 3} {
					delCases++
					deleteRangeStaticCase(run, b, st, pool, gridCase{Part: "C", Layout: lo, S: s, E: e, Conc: conc})
				}
			}
		}
		w.Close()
	}
	extra["range_task_cases"] = cases
	extra["delete_range_cases"] = delCases
}

// gridCase identifies one case of the plain enumerations (parts B, C, C2); it is the replay artefact.
type gridCase struct {
	Part   string   `json:"part"`
	Layout []string `json:"layout"`
	S      string   `json:"start"`
	E      string   `json:"end"`
	Conc   int      `json:"concurrency"`
	RPT    int      `json:"regions_per_task,omitempty"`
	Fail   int      `json:"failing_sub_range"`
	Plan   []string `json:"split_before_delivery,omitempty"`
	// Cancel: the caller's context is cancelled during the handler call with this index (which itself
	// succeeds); 0 = never (indices are 1-based here so that old replay files mean "never")
	Cancel int `json:"cancel_at_handler_call,omitempty"`
}

func rangeTaskCase(run *ev.Run, st *tikv.KVStore, gc gridCase) {
	lo, s, e, conc, rpt, fail := gc.Layout, gc.S, gc.E, gc.Conc, gc.RPT, gc.Fail
	var mu sync.Mutex
	var got []kv.KeyRange
	n := 0
	callerCtx, cancelCaller := context.WithCancel(context.Background())
	defer cancelCaller()
	h := func(ctx context.Context, r kv.KeyRange) (rangetask.TaskStat, error) {
		mu.Lock()
		defer mu.Unlock()
		i := n
		n++
		if gc.Cancel > 0 && i == gc.Cancel-1 {
			cancelCaller() // the caller gives up; this sub-range itself still succeeds
		}
		if i == fail {
			return rangetask.TaskStat{FailedRegions: 1}, errors.New("injected sub-range failure")
		}
		got = append(got, kv.KeyRange{StartKey: append([]byte{}, r.StartKey...), EndKey: append([]byte{}, r.EndKey...)})
		return rangetask.TaskStat{CompletedRegions: 1}, nil
	}
	r := rangetask.NewRangeTaskRunner("verif", st, conc, h)
	r.SetRegionsPerTask(rpt)
	err := r.RunOnRange(callerCtx, []byte(s), []byte(e))
	desc := fmt.Sprintf("layout=%v range=[%q,%q) concurrency=%d regionsPerTask=%d fail=%d cancel-at-call=%d", lo, s, e, conc, rpt, fail, gc.Cancel)
	failed := fail >= 0 && fail < n
	if gc.Cancel > 0 {
		// a cancelled run may report the cancellation or - if everything had been handed out already -
		// success; what it may not do is report success without having covered the range
		if err != nil {
			return
		}
	} else if failed != (err != nil) {
		run.Violation("rangetask:failure-not-reported", fmt.Sprintf("%s: handler failed=%v but RunOnRange returned %v", desc, failed, err), gc)
	}
	if failed {
		return
	}
	sort.Slice(got, func(i, j int) bool { return bytes.Compare(got[i].StartKey, got[j].StartKey) < 0 })
	cur := []byte(s)
	ok := true
	for i, g := range got {
		if !bytes.Equal(g.StartKey, cur) {
			ok = false
		}
		if len(g.EndKey) == 0 && i != len(got)-1 {
			ok = false
		}
		cur = g.EndKey
	}
	if len(got) == 0 || !bytes.Equal(cur, []byte(e)) {
		ok = false
	}
	if !ok {
		var rs []string
		for _, g := range got {
			rs = append(rs, fmt.Sprintf("[%q,%q)", g.StartKey, g.EndKey))
		}
		run.Violation("rangetask:sub-ranges-do-not-tile-the-range", fmt.Sprintf("%s: handler saw %v", desc, rs), gc)
	}
}

func deleteRangeStaticCase(run *ev.Run, b *txnh.MockBackend, st *tikv.KVStore, pool []string, gc gridCase) {
	lo, s, e, conc := gc.Layout, gc.S, gc.E, gc.Conc
	txn, _ := st.Begin()
	for _, k := range pool {
		txn.Set([]byte(k), []byte("v"+k))
	}
	if err := txn.Commit(context.Background()); err != nil {
		run.Note("delete-range seed commit failed: %v", err)
		return
	}
	// the secondaries are committed in the background: wait until no lock is left, so that
	// the delete-range does not race with them (a lock whose primary was deleted could
	// not be resolved any more)
	for i := 0; i < 2000 && len(b.Locks()) > 0; i++ {
		time.Sleep(time.Millisecond)
	}
	if len(b.Locks()) > 0 {
		run.Note("delete-range: seed transaction still has locks; case skipped")
		return
	}
	t := rangetask.NewDeleteRangeTask(st, []byte(s), []byte(e), conc)
	err := t.Execute(context.Background())
	desc := fmt.Sprintf("layout=%v delete-range=[%q,%q) concurrency=%d", lo, s, e, conc)
	if err != nil {
		run.Violation("deleterange:error", desc+": "+err.Error(), gc)
		return
	}
	ts, _ := st.CurrentTimestamp("global")
	snap := st.GetSnapshot(ts)
	for _, k := range pool {
		_, gerr := snap.Get(context.Background(), []byte(k))
		gone := tikverr.IsErrNotFound(gerr)
		want := k >= s && (e == "" || k < e)
		if gone != want {
			run.Violation("deleterange:wrong-keys-removed", fmt.Sprintf("%s: key %q removed=%v, expected %v", desc, k, gone, want), gc)
		}
	}
}

// ---- part C2: delete range while the topology changes under the task ----

// deleteRangeTopologyPart: for every layout x range x concurrency, one (thorough: two) region
// split(s) injected at the RPC seam right before the first DeleteRange request whose range
// strictly contains the split key is delivered - i.e. between the task's region lookup and
// the store seeing the request, so that the store answers a region error and the task has
// to retry that piece. Oracle: exactly the keys of [start, end) are gone.
func deleteRangeTopologyPart(run *ev.Run, extra map[string]any, thorough bool) {
	pool := []string{"a", "ab", "b", "bb", "c", "cc", "d", "dd"}
	bounds := []string{"", "a", "b", "bb", "c", "d", "e"}
	cands := []string{"ab", "b", "bb", "c", "cc", "d", "dd"}
	cases, fired := 0, 0
	for mask := 0; mask < 8; mask++ {
		var lo []string
		for i, k := range []string{"b", "c", "d"} {
			if mask&(1<<i) != 0 {
				lo = append(lo, k)
			}
		}
		var plans [][]string
		for _, k1 := range cands {
			if contains(lo, k1) {
				continue
			}
			plans = append(plans, []string{k1})
			if thorough {
				for _, k2 := range cands {
					if k2 != k1 && !contains(lo, k2) {
						plans = append(plans, []string{k1, k2})
					}
				}
			}
		}
		for _, s := range bounds {
			for _, e := range bounds {
				if e != "" && s >= e {
					continue
				}
				for _, conc := range []int{1, 3} {
					for _, plan := range plans {
						cases++
						if deleteRangeCase(run, lo, pool, s, e, conc, plan) {
							fired++
						}
					}
				}
			}
		}
	}
	extra["delete_range_topology_cases"] = cases
	extra["delete_range_topology_cases_with_region_error"] = fired
}

func contains(l []string, k string) bool {
	for _, x := range l {
		if x == k {
			return true
		}
	}
	return false
}

func deleteRangeCase(run *ev.Run, lo, pool []string, s, e string, conc int, plan []string) (fired bool) {
	gc := gridCase{Part: "C2", Layout: lo, S: s, E: e, Conc: conc, Plan: plan}
	b := txnh.NewMockBackend(1, lo...)
	w := txnh.NewWorld(b, 1)
	defer w.Close()
	st := w.Clients[0].Store
	desc := fmt.Sprintf("layout=%v delete-range=[%q,%q) concurrency=%d split-before-delivery=%v", lo, s, e, conc, plan)
	// one single-key transaction per key: nothing is committed in the background
	for _, k := range pool {
		txn, _ := st.Begin()
		txn.Set([]byte(k), []byte("v"+k))
		if err := txn.Commit(context.Background()); err != nil {
			run.Note("delete-range seed commit failed: %v", err)
			return false
		}
	}
	var mu sync.Mutex
	next := 0
	w.BeforeRPC = func(c *txnh.Client, req *tikvrpc.Request) {
		if req.Type != tikvrpc.CmdDeleteRange {
			return
		}
		dr := req.DeleteRange()
		mu.Lock()
		defer mu.Unlock()
		if next >= len(plan) {
			return
		}
		k := plan[next]
		if string(dr.StartKey) < k && (len(dr.EndKey) == 0 || k < string(dr.EndKey)) {
			next++
			b.SplitAt([]byte(k))
		}
	}
	t := rangetask.NewDeleteRangeTask(st, []byte(s), []byte(e), conc)
	err := t.Execute(context.Background())
	mu.Lock()
	fired = next > 0
	w.BeforeRPC = nil
	mu.Unlock()
	if err != nil {
		run.Violation("deleterange:error-after-split", desc+": "+err.Error(), gc)
		return
	}
	ts, _ := st.CurrentTimestamp("global")
	snap := st.GetSnapshot(ts)
	for _, k := range pool {
		_, gerr := snap.Get(context.Background(), []byte(k))
		gone := tikverr.IsErrNotFound(gerr)
		want := k >= s && (e == "" || k < e)
		if gone != want {
			run.Violation("deleterange:wrong-keys-removed:split-before-delivery", fmt.Sprintf("%s: key %q removed=%v, expected %v", desc, k, gone, want), gc)
		}
	}
	return
}

// gridReplay re-runs one case of parts B, C, C2 from a replay file (--replay <file>).
func gridReplay(run *ev.Run) bool {
	file := ""
	for i, a := range os.Args {
		if a == "--replay" && i+1 < len(os.Args) {
			file = os.Args[i+1]
		}
	}
	if file == "" {
		return false
	}
	raw, err := os.ReadFile(file)
	if err != nil {
		return false
	}
	var rf struct {
		Property string   `json:"property"`
		Key      string   `json:"key"`
		Replay   gridCase `json:"replay"`
	}
	if json.Unmarshal(raw, &rf) != nil || rf.Replay.Part == "" {
		return false
	}
	gc := rf.Replay
	rr := run
	pool := []string{"a", "b", "c", "d"}
	switch gc.Part {
	case "B", "C":
		b := txnh.NewMockBackend(1, gc.Layout...)
		w := txnh.NewWorld(b, 1)
		if gc.Part == "B" {
			rangeTaskCase(rr, w.Clients[0].Store, gc)
		} else {
			deleteRangeStaticCase(rr, b, w.Clients[0].Store, pool, gc)
		}
		w.Close()
	case "C2":
		deleteRangeCase(rr, gc.Layout, []string{"a", "ab", "b", "bb", "c", "cc", "d", "dd"}, gc.S, gc.E, gc.Conc, gc.Plan)
	default:
		return false
	}
	if rr.Hit(rf.Key) {
		fmt.Printf("VIOLATION property=C14 replay=%s\n", file)
		os.Exit(1)
	}
	fmt.Println("replay: the case no longer fails")
	os.Exit(0)
	return true
}

// ---- part D: safe point ----

func safePointPart(run *ev.Run, extra map[string]any) {
	b := txnh.NewMockBackend(1, "b")
	w := txnh.NewWorld(b, 1)
	defer w.Close()
	st := w.Clients[0].Store
	txn, _ := st.Begin()
	txn.Set([]byte("a"), []byte("va"))
	txn.Set([]byte("b"), []byte("vb"))
	if err := txn.Commit(context.Background()); err != nil {
		run.Note("safe point seed commit failed: %v", err)
		return
	}
	sp, _ := st.CurrentTimestamp("global")
	st.UpdateTxnSafePointCache(sp, time.Now())
	n := 0
	for _, d := range []int64{-1, 0, 1} {
		ts := uint64(int64(sp) + d)
		for _, path := range []string{"get", "batchget", "iter", "riter"} {
			n++
			snap := st.GetSnapshot(ts)
			var err error
			switch path {
			case "get":
				_, err = snap.Get(context.Background(), []byte("a"))
			case "batchget":
				_, err = snap.BatchGet(context.Background(), [][]byte{[]byte("a"), []byte("b")})
			case "iter":
				var it interface {
					Valid() bool
					Close()
				}
				it, err = snap.Iter([]byte("a"), nil)
				if err == nil {
					it.Close()
				}
			case "riter":
				var it interface {
					Valid() bool
					Close()
				}
				it, err = snap.IterReverse([]byte("c"), nil)
				if err == nil {
					it.Close()
				}
			}
			var gcErr *tikverr.ErrTxnAbortedByGC
			aborted := errors.As(err, &gcErr)
			if d < 0 && !aborted {
				run.Violation("safepoint:read-below-safe-point-served:"+path, fmt.Sprintf("%s at ts %d below the cached txn safe point %d returned %v instead of aborted-by-GC", path, ts, sp, err), path)
			}
			if d >= 0 && err != nil && !tikverr.IsErrNotFound(err) {
				run.Violation("safepoint:read-at-or-above-safe-point-refused:"+path, fmt.Sprintf("%s at ts %d (safe point %d) failed: %v", path, ts, sp, err), path)
			}
		}
	}
	extra["safe_point_cases"] = n
	// D2: the store learns a newer safe point while the read is under way (between the client's call and
	// the delivery of its first read RPC; GC then really removes the old versions): the read, whose
	// timestamp is now below the learned safe point, must still be refused instead of being served.
	m := 0
	var ts uint64
	for _, path := range []string{"get", "batchget", "iter", "riter"} {
		for _, withGC := range []bool{false, true} {
			m++
			b2 := txnh.NewMockBackend(1, "b")
			w2 := txnh.NewWorld(b2, 1)
			st2 := w2.Clients[0].Store
			for _, v := range []string{"1", "2"} {
				t2, _ := st2.Begin()
				t2.Set([]byte("a"), []byte("va"+v))
				t2.Set([]byte("b"), []byte("vb"+v))
				if err := t2.Commit(context.Background()); err != nil {
					run.Note("safe point seed commit failed: %v", err)
				}
				if v == "1" {
					// the read timestamp lies between the two versions
					n0, _ := st2.CurrentTimestamp("global")
					ts = n0
				}
			}
			for i := 0; i < 2000 && len(b2.Locks()) > 0; i++ {
				time.Sleep(time.Millisecond)
			}
			sp2, _ := st2.CurrentTimestamp("global")
			fired := false
			w2.BeforeRPC = func(c *txnh.Client, req *tikvrpc.Request) {
				if fired || (req.Type != tikvrpc.CmdGet && req.Type != tikvrpc.CmdBatchGet && req.Type != tikvrpc.CmdScan) {
					return
				}
				fired = true
				st2.UpdateTxnSafePointCache(sp2, time.Now())
				if withGC {
					_ = b2.Store.GC(nil, nil, sp2)
				}
			}
			snap := st2.GetSnapshot(ts)
			var err error
			served := ""
			switch path {
			case "get":
				var v kv.ValueEntry
				v, err = snap.Get(context.Background(), []byte("a"))
				served = string(v.Value)
			case "batchget":
				var mm map[string]kv.ValueEntry
				mm, err = snap.BatchGet(context.Background(), [][]byte{[]byte("a"), []byte("b")})
				served = fmt.Sprint(len(mm), " pairs")
			case "iter", "riter":
				var it interface {
					Valid() bool
					Next() error
					Close()
				}
				if path == "iter" {
					it, err = snap.Iter([]byte("a"), nil)
				} else {
					it, err = snap.IterReverse([]byte("c"), nil)
				}
				cnt := 0
				for err == nil && it.Valid() {
					cnt++
					err = it.Next()
				}
				if it != nil {
					it.Close()
				}
				served = fmt.Sprint(cnt, " pairs")
			}
			w2.BeforeRPC = nil
			var gcErr *tikverr.ErrTxnAbortedByGC
			if fired && !errors.As(err, &gcErr) {
				run.Violation("safepoint:learned-during-read:served:"+path, fmt.Sprintf("%s at ts %d: the store learned safe point %d (gc run=%v) before the read request was delivered, yet the read returned %q, err=%v instead of aborted-by-GC", path, ts, sp2, withGC, served, err), path)
			}
			if !fired {
				run.Note("safe point D2: %s sent no read RPC", path)
			}
			w2.Close()
		}
	}
	extra["safe_point_learned_during_read_cases"] = m
}

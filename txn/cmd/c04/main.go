// C04: a transaction's request stream obeys the Percolator ordering and
// timestamp rules. The rules are a passive monitor (txnh.Monitor) evaluated on
// every execution of four exhaustive enumerations on the real client:
// (1) transaction program pairs under bounded-preemption interleaving,
// (2) victim shapes with every single fault / region error / real split at
// every RPC (forcing batches to be regrouped), with and without a reader whose
// resolver runs, (3) the same shapes with the batch size limited to one key,
// (4) open pessimistic transactions and commits with the TTL heart-beat ticker
// fired at every point.
package main

import (
	"fmt"
	"os"
	"strings"
	"time"

	"veriftxn/common"
	_ "veriftxn/unibk"

	"github.com/pingcap/failpoint"
	"github.com/tikv/client-go/v2/tikvrpc"
	"github.com/tikv/client-go/v2/verifrt/ev"
	"github.com/tikv/client-go/v2/verifrt/sched"
	"github.com/tikv/client-go/v2/verifrt/txnh"
)

func op(kind, key string) txnh.Op { return txnh.Op{Kind: kind, Key: key} }

var dumped = 0

func monitor(s *txnh.TxnScenario, x *sched.Exec) []sched.Violation {
	if os.Getenv("VERIF_DUMP") != "" && dumped < 2 {
		has := false
		for _, r := range s.W.Log() {
			if r.Cmd == tikvrpc.CmdCheckSecondaryLocks {
				has = true
			}
		}
		if has {
			dumped++
			fmt.Fprintf(os.Stderr, "---- trace %v\n", x.Trace)
			for _, r := range s.W.Log() {
				fmt.Fprintf(os.Stderr, "  #%d c%d %s req=%v\n      resp=%v err=%v\n", r.Seq, r.Client, r.Label, r.Req.Req, r.Resp, r.Err)
			}
		}
	}
	return txnh.Monitor(s.H, s.W.Log(), s.W.TSOs(), s.W.Ticks()...)
}

func main() {
	txnh.Init()
	run := ev.Start("C04", "model_checking")
	keys := []string{"a", "b", "c"}
	F, P := 1, 1
	budget := 240 * time.Second
	if run.Thorough() {
		F, P = 2, 2
		budget = 35 * time.Minute
	}
	if s := os.Getenv("VERIF_BUDGET_S"); s != "" {
		var n int
		fmt.Sscan(s, &n)
		budget = time.Duration(n) * time.Second
	}
	var jobs []sched.Job
	specs := map[string]func() *txnh.TxnScenario{}
	bounds := map[string]sched.Bounds{}
	add := func(name string, b sched.Bounds, mk func() *txnh.TxnScenario) {
		specs[name] = mk
		bounds[name] = b
		jobs = append(jobs, sched.Job{Name: name, Run: func(dl time.Time) sched.Report {
			sc := mk()
			b := b
			b.Deadline = dl
			x := &sched.Explorer{Sc: sc, B: b}
			x.Outcome = func(e *sched.Exec) string {
				var cmds []string
				for _, r := range sc.W.Log() {
					c := r.Cmd.String()
					if r.Dev != 0 {
						c += fmt.Sprintf("!%d", r.Dev)
					}
					cmds = append(cmds, c)
				}
				return strings.Join(cmds, " ")
			}
			return x.Explore(false)
		}})
	}
	commit := txnh.Op{Kind: "commit"}
	for _, bk := range common.BackendsTier(run.Thorough()) {
		for _, m := range bk.Modes {
			for _, sh := range common.Shapes(true) {
				if sh.Pess != m.Pessimistic || (sh.LockOnlyPrimary && bk.Name == "unistore") {
					continue
				}
				for _, lo := range common.Layouts(run.Thorough()) {
					bk, m, sh, lo := bk, m, sh, lo
					// (2) faults + reader, (3) the same with one-key batches
					for _, variant := range []string{"faults", "faults+reader", "batch1"} {
						variant := variant
						if bk.Name == "unistore" && !run.Thorough() && variant != "faults" {
							continue
						}
						name := fmt.Sprintf("%s/%s/%s/%s/%s", bk.Name, lo.Name, m, sh.Name, variant)
						mk := func() *txnh.TxnScenario {
							clock := false
							sc := &txnh.TxnScenario{ID: name, NewBackend: func() txnh.Backend { return bk.New(lo.Splits) }, Keys: keys,
								Progs: [][]txnh.Program{{{Mode: m, Ops: sh.Ops}}}, CheckFn: monitor}
							if variant == "faults+reader" {
								sc.Progs = append(sc.Progs, []txnh.Program{{Ops: []txnh.Op{{Kind: "bget", Keys: keys}, op("get", "a"), commit}}})
								sc.ExtraFn = func(s *txnh.TxnScenario) []sched.Choice {
									if len(s.W.B.Locks()) == 0 {
										return nil
									}
									return common.AdvanceClockChoice(&clock, 21*time.Second)
								}
							}
							sc.SetupFn = func(s *txnh.TxnScenario) {
								clock = false
								if variant == "batch1" {
									failpoint.Enable("tikvclient/twoPCRequestBatchSizeLimit", "return")
								} else {
									failpoint.Disable("tikvclient/twoPCRequestBatchSizeLimit")
								}
								if len(sh.Seed) > 0 {
									common.SeedKey(s, sh.Seed...)
								}
							}
							sc.MenuFn = func(s *txnh.TxnScenario, e *sched.Event) []sched.Dev {
								if e.Actor != 0 || e.Kind != sched.KRPC {
									return nil
								}
								return common.FaultMenu(s.W, e, true)
							}
							return sc
						}
						add(name, sched.Bounds{P: P, F: F, Horizon: 500, EarlyTimers: true}, mk)
					}
					// (4) heart-beats: the TTL ticker may fire at every decision (each firing costs one deviation)
					name := fmt.Sprintf("%s/%s/%s/%s/heartbeat", bk.Name, lo.Name, m, sh.Name)
					mk := func() *txnh.TxnScenario {
						sc := &txnh.TxnScenario{ID: name, NewBackend: func() txnh.Backend { return bk.New(lo.Splits) }, Keys: keys,
							Progs: [][]txnh.Program{{{Mode: m, Ops: sh.Ops}}}, CheckFn: monitor}
						sc.SetupFn = func(s *txnh.TxnScenario) {
							failpoint.Disable("tikvclient/twoPCRequestBatchSizeLimit")
							if len(sh.Seed) > 0 {
								common.SeedKey(s, sh.Seed...)
							}
						}
						return sc
					}
					hbF := 2
					if run.Thorough() {
						hbF = 3
					}
					add(name, sched.Bounds{P: 0, F: hbF, Horizon: 300, EarlyTimers: false, Tickers: true, TickerMatch: "keepAlive"}, mk)
				}
			}
			// (4b) heart-beats of pessimistic transactions whose primary is chosen anew: the first locking
			// call locks nothing (lock-only-if-exists on an absent key / an insert that meets an existing
			// key), a later call picks the real primary
			if m.Pessimistic {
				for _, lo := range common.Layouts(run.Thorough()) {
					bk, m, lo := bk, m, lo
					type rp struct {
						name string
						ops  []txnh.Op
						seed []string
					}
					for _, p := range []rp{
						{"P:lockrv-only-if-exists(c:absent);lock(b);set(b)", []txnh.Op{{Kind: "lockrv", Key: "c", OnlyExist: true}, op("lock", "b"), op("set", "b"), commit}, nil},
						{"P:insert(a:exists);lock(a);lock(b);rollback", []txnh.Op{op("insert", "a"), op("lock", "a"), op("lock", "b"), {Kind: "rollback"}}, []string{"a", "base"}},
					} {
						p := p
						name := fmt.Sprintf("%s/%s/%s/%s/heartbeat", bk.Name, lo.Name, m, p.name)
						mk := func() *txnh.TxnScenario {
							sc := &txnh.TxnScenario{ID: name, NewBackend: func() txnh.Backend { return bk.New(lo.Splits) }, Keys: keys,
								Progs: [][]txnh.Program{{{Mode: m, Ops: p.ops, KeepGoing: true}}}, CheckFn: monitor}
							sc.SetupFn = func(s *txnh.TxnScenario) {
								failpoint.Disable("tikvclient/twoPCRequestBatchSizeLimit")
								if len(p.seed) > 0 {
									common.SeedKey(s, p.seed...)
								}
							}
							return sc
						}
						hbF := 2
						if run.Thorough() {
							hbF = 3
						}
						add(name, sched.Bounds{P: 0, F: hbF, Horizon: 300, EarlyTimers: false, Tickers: true, TickerMatch: "keepAlive"}, mk)
					}
				}
			}
			// (5) a live async-commit transaction whose prewrite is slow. In this order, one deviation each: time
			// passes between its locking call and Commit (+15 s), the keep-alive ticker fires (the heart-beat
			// raises the primary's TTL, and only the primary's), time passes again while the prewrites are on
			// their way (+6 s: the not yet prewritten key's pessimistic lock has now outlived its TTL, the
			// primary has not). A writer (reads are not blocked by pessimistic locks) that meets the old lock
			// must wait for the live primary instead of starting the async-commit recovery, which would roll the
			// transaction back. One preemption lets the writer in.
			if m.Pessimistic && m.Async {
				bk, m := bk, m
				lo := common.Layout{Name: "split@b,c", Splits: []string{"b", "c"}}
				name := fmt.Sprintf("%s/%s/%s/P:lock(a,b,c);set(a);set(b);set(c)/slow-prewrite+writer", bk.Name, lo.Name, m)
				vops := []txnh.Op{{Kind: "lock", Keys: []string{"a", "b", "c"}}, op("set", "a"), op("set", "b"), op("set", "c"), commit}
				mk := func() *txnh.TxnScenario {
					stage := 0
					sc := &txnh.TxnScenario{ID: name, NewBackend: func() txnh.Backend { return bk.New(lo.Splits) }, Keys: keys,
						Progs: [][]txnh.Program{{{Mode: m, Ops: vops}}, {{Ops: []txnh.Op{op("set", "c"), commit}}}}, CheckFn: monitor}
					sc.SetupFn = func(s *txnh.TxnScenario) {
						stage = 0
						failpoint.Disable("tikvclient/twoPCRequestBatchSizeLimit")
					}
					sc.ExtraFn = func(s *txnh.TxnScenario) []sched.Choice {
						v := s.H.Txns[0]
						if v.Outcome != "open" {
							return nil
						}
						switch {
						case stage == 0 && !v.CommitCalled && len(v.Locks) > 0:
							return []sched.Choice{{Key: "clock+15s", FCost: 1, Fn: func() { stage = 1; sched.Advance(15 * time.Second) }}}
						case stage == 1:
							return []sched.Choice{{Key: "tick:keepAlive", FCost: 1, Fn: func() {
								if sched.FireTicker("keepAlive") {
									stage = 2
								}
							}}}
						case stage == 2 && v.CommitCalled:
							hb, prewrites := 0, 0
							for _, r := range s.W.Log() {
								if r.Client == 0 && r.Cmd == tikvrpc.CmdPrewrite {
									prewrites++
								}
								if r.Client == 0 && r.Cmd == tikvrpc.CmdTxnHeartBeat {
									hb++
								}
							}
							if prewrites > 0 && hb > 0 {
								return []sched.Choice{{Key: "clock+6s", FCost: 1, Fn: func() { stage = 3; sched.Advance(6 * time.Second) }}}
							}
						}
						return nil
					}
					return sc
				}
				add(name, sched.Bounds{P: 1, F: 3, Horizon: 400, EarlyTimers: false}, mk)
			}
			// (1) program pairs
			type pr struct {
				name string
				ops  []txnh.Op
			}
			var ps []pr
			if !m.Pessimistic {
				ps = []pr{
					{"get(a);set(a)", []txnh.Op{op("get", "a"), op("set", "a"), commit}},
					{"set(a);set(b)", []txnh.Op{op("set", "a"), op("set", "b"), commit}},
					{"insert(a)", []txnh.Op{op("insert", "a"), commit}},
					{"insert(b);delete(b);set(a)", []txnh.Op{op("insert", "b"), op("delete", "b"), op("set", "a"), commit}},
					{"delete(a);lock(b)", []txnh.Op{op("delete", "a"), op("lock", "b"), commit}},
					{"bget(a,b)", []txnh.Op{{Kind: "bget", Keys: []string{"a", "b"}}, commit}},
				}
			} else {
				ps = []pr{
					{"lock(a);set(a)", []txnh.Op{op("lock", "a"), op("set", "a"), commit}},
					{"lockrv(b);set(b);lock(a);set(a)", []txnh.Op{op("lockrv", "b"), op("set", "b"), op("lock", "a"), op("set", "a"), commit}},
					{"insert(a);lock(a)", []txnh.Op{op("insert", "a"), op("lock", "a"), commit}},
					{"lock(a);delete(a)", []txnh.Op{op("lock", "a"), op("delete", "a"), commit}},
					{"lock(a,b);set(a)", []txnh.Op{{Kind: "lock", Keys: []string{"a", "b"}}, op("set", "a"), commit}},
					{"get(a)", []txnh.Op{op("get", "a"), commit}},
				}
			}
			for _, lo := range common.Layouts(false) {
				for i := range ps {
					for j := i; j < len(ps); j++ {
						bk, m, lo, pa, pb := bk, m, lo, ps[i], ps[j]
						name := fmt.Sprintf("%s/%s/%s/pair/%s || %s", bk.Name, lo.Name, m, pa.name, pb.name)
						mk := func() *txnh.TxnScenario {
							sc := &txnh.TxnScenario{ID: name, NewBackend: func() txnh.Backend { return bk.New(lo.Splits) }, Keys: keys,
								Progs: [][]txnh.Program{{{Mode: m, Ops: pa.ops}}, {{Mode: m, Ops: pb.ops}}}, CheckFn: monitor}
							sc.SetupFn = func(s *txnh.TxnScenario) {
								failpoint.Disable("tikvclient/twoPCRequestBatchSizeLimit")
								common.SeedKey(s, "a", "base")
							}
							return sc
						}
						add(name, sched.Bounds{P: P + 1, F: 0, Horizon: 400, EarlyTimers: true}, mk)
					}
				}
			}
		}
	}
	// (5) crash + recovery by an explored reader: the resolver's status checks in every answer order
	for _, er := range common.ExploredRecovery(run.Thorough(), keys) {
		er := er
		add(er.Name, sched.Bounds{P: 1, F: 2, Horizon: 500}, func() *txnh.TxnScenario {
			sc := er.Make()
			sc.CheckFn = monitor
			return sc
		})
	}
	if common.HandleReplay(run, jobs, func(name string) sched.Scenario {
		if mk, ok := specs[name]; ok {
			return mk()
		}
		return nil
	}, sched.Bounds{P: 99, F: 99, Horizon: 500, EarlyTimers: true, Tickers: true}) {
		return
	}
	res := sched.RunSharded(jobs, budget)
	common.Finish(run, jobs, res, common.FinishOpts{
		Bounds: map[string]any{"faults": F, "preemptions": P, "pair_preemptions": P + 1, "heartbeat_ticks": 2, "keys": keys},
		Rule: "request-stream monitor (commit only after all prewrites succeeded; secondaries after the primary unless async; no rollback once the primary commit may have taken effect; resolvers apply only reported outcomes / commit ts; forced expiry only for ttl-0 locks, GC or locks past their TTL on the resolver's clock; heart-beat rules; commit-ts rules; one primary among the locked mutations, async secondaries complete, 1PC with one prewrite, prewritten mutations == buffer with implied op/value/pessimistic action) evaluated on every execution of: " +
			"victim shapes x layouts x {every single fault/region error/real split at every RPC, the same with a reader + clock jump, batch size limited to one key} ; heart-beat ticker fired at every decision (<= 2 firings); transaction program pairs with <= P+1 preemptions. distinct_nontrivial = distinct request streams (command + deviation sequences)",
		Assumptions: []string{
			"the statement of C04 in properties.jsonl is cut after 'the pessimistic-che'; the last clause is read as 'the pessimistic-check flag' (DO_PESSIMISTIC_CHECK iff the key was pessimistically locked)",
			"the monitor judges only what follows with certainty from the recorded stream (e.g. a key error answer to the primary commit is a definite refusal)",
			"seam-granularity interleavings; delivery order stands for send order",
		},
	})
}

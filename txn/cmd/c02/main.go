// C02: a client crash anywhere in commit leaves an all-or-nothing,
// ack-consistent state. Crash-point enumeration: at every seam event of the
// victim (TSO request or store RPC, foreground or background) the client dies
// with the request either never delivered or delivered but unanswered; then
// the locks expire and recovery actors (reader, GC, conflicting writer) drive
// the transaction to its outcome on the real client code.
package main

import (
	"fmt"
	"os"
	"time"

	"veriftxn/common"
	_ "veriftxn/unibk"

	"github.com/tikv/client-go/v2/verifrt/ev"
	"github.com/tikv/client-go/v2/verifrt/sched"
	"github.com/tikv/client-go/v2/verifrt/txnh"
)

func main() {
	txnh.Init()
	run := ev.Start("C02", "fault_enumeration")
	keys := []string{"a", "b", "c"}
	P := 1
	budget := 150 * time.Second
	if run.Thorough() {
		P = 2
		budget = 35 * time.Minute
	}
	if s := os.Getenv("VERIF_BUDGET_S"); s != "" {
		var n int
		fmt.Sscan(s, &n)
		budget = time.Duration(n) * time.Second
	}
	recoveries := []string{"reader-gc", "gc-reader", "writer-reader"}
	var jobs []sched.Job
	specs := map[string]func() *txnh.TxnScenario{}
	for _, bk := range common.BackendsTier(run.Thorough()) {
		for _, m := range common.ModesWithDeclined(bk) {
			for _, sh := range common.Shapes(run.Thorough()) {
				if sh.Pess != m.Pessimistic {
					continue
				}
				for _, lo := range common.Layouts(run.Thorough()) {
					for _, rv := range recoveries {
						for _, concurrent := range []string{"none", "reader", "writer"} {
							bk, m, sh, lo, rv, concurrent := bk, m, sh, lo, rv, concurrent
							if concurrent != "none" && rv != "reader-gc" && !run.Thorough() {
								continue
							}
							name := fmt.Sprintf("%s/%s/%s/%s/recovery=%s/concurrent=%s", bk.Name, lo.Name, m, sh.Name, rv, concurrent)
							mk := func() *txnh.TxnScenario {
								sc := &txnh.TxnScenario{
									ID:         name,
									NewBackend: func() txnh.Backend { return bk.New(lo.Splits) },
									Keys:       keys,
									Progs:      [][]txnh.Program{{{Mode: m, Ops: sh.Ops}}},
								}
								switch concurrent {
								case "reader":
									sc.Progs = append(sc.Progs, []txnh.Program{{Ops: []txnh.Op{{Kind: "bget", Keys: keys}, {Kind: "commit"}}}})
								case "writer":
									sc.Progs = append(sc.Progs, []txnh.Program{{Ops: []txnh.Op{{Kind: "set", Key: "b"}, {Kind: "commit"}}}})
								}
								sc.SetupFn = func(s *txnh.TxnScenario) {
									if len(sh.Seed) > 0 {
										common.SeedKey(s, sh.Seed...)
									}
								}
								sc.MenuFn = func(s *txnh.TxnScenario, e *sched.Event) []sched.Dev {
									if e.Actor != 0 || s.W.Crashed(0) {
										return nil
									}
									switch e.Kind {
									case sched.KRPC:
										return []sched.Dev{{Name: "crash-undelivered", Kind: txnh.DevCrash}, {Name: "crash-delivered", Kind: txnh.DevCrashDlv}}
									case sched.KTSO:
										return []sched.Dev{{Name: "crash", Kind: txnh.DevCrash}}
									}
									return nil
								}
								sc.CheckFn = func(s *txnh.TxnScenario, x *sched.Exec) []sched.Violation {
									v := s.H.Txns[0]
									if !s.W.Crashed(0) && (v.Outcome == "open" || v.Outcome == "unstarted") {
										return nil // not finished and not crashed (horizon): inconclusive
									}
									out, _, t := common.AuditVictimR(s, x, 0, "", rv)
									if t != nil {
										t.Splits = lo.Splits
										for _, sv := range txnh.AuditSI(s.H, t) {
											sv.Key = "si:" + sv.Key
											out = append(out, sv)
										}
									}
									return out
								}
								return sc
							}
							specs[name] = mk
							jobs = append(jobs, sched.Job{Name: name, Run: func(dl time.Time) sched.Report {
								sc := mk()
								x := &sched.Explorer{Sc: sc, B: sched.Bounds{P: P, F: 1, Horizon: 500, EarlyTimers: true, Deadline: dl}}
								x.Outcome = func(e *sched.Exec) string {
									crash := "no-crash"
									for i, k := range e.Trace {
										if len(k) > 6 && (k[len(k)-5:] == "crash" || contains(k, "!crash")) {
											crash = fmt.Sprintf("crash@%d:%s", i, k)
										}
									}
									return sc.H.Txns[0].Outcome + " " + crash
								}
								return x.Explore(false)
							}})
						}
					}
				}
			}
		}
	}
	// Recovery by an explored actor (common.ExploredRecovery): after the crash the locks expire and a
	// reader arrives as an actor, so the order in which its resolver's status checks are answered is explored.
	for _, er := range common.ExploredRecovery(run.Thorough(), keys) {
		er := er
		mk := func() *txnh.TxnScenario {
			sc := er.Make()
			sc.CheckFn = func(s *txnh.TxnScenario, x *sched.Exec) []sched.Violation {
				v := s.H.Txns[0]
				if !s.W.Crashed(0) && (v.Outcome == "open" || v.Outcome == "unstarted") {
					return nil
				}
				out, _, t := common.AuditVictimR(s, x, 0, "", "reader-gc")
				if t != nil {
					t.Splits = er.Splits
					for _, sv := range txnh.AuditSI(s.H, t) {
						sv.Key = "si:" + sv.Key
						out = append(out, sv)
					}
				}
				return out
			}
			return sc
		}
		specs[er.Name] = mk
		jobs = append(jobs, sched.Job{Name: er.Name, Run: func(dl time.Time) sched.Report {
			sc := mk()
			x := &sched.Explorer{Sc: sc, B: sched.Bounds{P: 1, F: 2, Horizon: 500, EarlyTimers: false, Deadline: dl}}
			x.Outcome = func(e *sched.Exec) string { return sc.H.Txns[0].Outcome + fmt.Sprint(len(sc.W.Log())) }
			return x.Explore(false)
		}})
	}
	if common.HandleReplay(run, jobs, func(name string) sched.Scenario {
		if mk, ok := specs[name]; ok {
			return mk()
		}
		return nil
	}, sched.Bounds{P: 99, F: 99, Horizon: 500, EarlyTimers: true}) {
		return
	}
	res := sched.RunSharded(jobs, budget)
	common.Finish(run, jobs, res, common.FinishOpts{
		Bounds: map[string]any{"crashes": 1, "preemptions": P, "keys": keys, "recoveries": recoveries, "concurrent_actors": []string{"none", "reader", "writer"}},
		Rule: "victim shapes x layouts x commit modes x backends x recovery order {reader then GC, GC then reader, conflicting writer then reader then GC} x concurrent actor {none, reader, writer on one key}; " +
			"for each, the crash is placed at every seam event index of the victim (every TSO request, every store RPC incl. background secondary commits / cleanup) in both forms (request never delivered / delivered but unanswered), interleaved with the concurrent actor under <= P preemptions; " +
			"then the clock passes every TTL, the recovery actors run, and the final MVCC state is audited: all-or-nothing with one commit ts, no lock left, outcome consistent with what the dead client had been told, recovery snapshot equals the final state. " +
			"distinct_nontrivial = distinct (acknowledged outcome, crash position) classes",
		Assumptions: []string{
			"a crashed client's goroutines never run again (all of them, incl. background committers)",
			"seam-granularity interleavings; recovery actors run sequentially after the crash (the concurrent actor is interleaved)",
		},
	})
}

func contains(s, sub string) bool {
	for i := 0; i+len(sub) <= len(s); i++ {
		if s[i:i+len(sub)] == sub {
			return true
		}
	}
	return false
}

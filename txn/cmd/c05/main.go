// C05: snapshot reads are stable and identical across all access paths.
// MVCC histories with leftover locks of every kind are produced by crashing two
// writers at every combination of seam points (committed primary with
// unresolved secondaries, rolled back, pending, pessimistic, async-commit, locks
// of transactions started after the snapshot). On every such history the real
// snapshot API is driven through an exhaustive grid: every snapshot timestamp
// between the history's events, point get of every key, batch get of every
// subset, forward and reverse scans over every bound pair, scan batch sizes 2
// and 3, key-only, repetition on a warm cache, SetSnapshotTS to another
// timestamp and back, and a region split injected before each RPC of the
// multi-RPC reads. Every answer must equal the MVCC truth of the final state.
package main

import (
	"context"
	"fmt"
	"os"
	"sort"
	"strings"
	"time"

	"veriftxn/common"
	_ "veriftxn/unibk"

	"github.com/pingcap/kvproto/pkg/errorpb"
	"github.com/pingcap/kvproto/pkg/kvrpcpb"
	"github.com/tikv/client-go/v2/config"
	tikverr "github.com/tikv/client-go/v2/error"
	"github.com/tikv/client-go/v2/tikvrpc"
	"github.com/tikv/client-go/v2/txnkv/txnsnapshot"
	"github.com/tikv/client-go/v2/verifrt/ev"
	"github.com/tikv/client-go/v2/verifrt/sched"
	"github.com/tikv/client-go/v2/verifrt/txnh"
)

func op(kind, key string) txnh.Op { return txnh.Op{Kind: kind, Key: key} }

type readCase struct {
	name  string
	run   func(s *txnsnapshot.KVSnapshot) (map[string]string, []string, error) // values, order (scans), error
	keys  func(pool []string) []string                                         // keys the case is expected to return info about
	scan  bool
	rev   bool
	lo    string
	hi    string
	kOnly bool
}

func pool() []string { return []string{"a", "b", "c"} }

func cases(mock bool) []readCase {
	var out []readCase
	ctx := context.Background()
	for _, k := range []string{"a", "b", "c", "d"} {
		k := k
		out = append(out, readCase{name: "get(" + k + ")", keys: func([]string) []string { return []string{k} }, run: func(s *txnsnapshot.KVSnapshot) (map[string]string, []string, error) {
			v, err := s.Get(ctx, []byte(k))
			if tikverr.IsErrNotFound(err) {
				return map[string]string{}, nil, nil
			}
			if err != nil {
				return nil, nil, err
			}
			return map[string]string{k: string(v.Value)}, nil, nil
		}})
	}
	all := []string{"a", "b", "c", "d"}
	for mask := 1; mask < 16; mask++ {
		var ks []string
		for i, k := range all {
			if mask&(1<<i) != 0 {
				ks = append(ks, k)
			}
		}
		if len(ks) < 2 {
			continue
		}
		ks2 := ks
		out = append(out, readCase{name: "bget(" + strings.Join(ks, ",") + ")", keys: func([]string) []string { return ks2 }, run: func(s *txnsnapshot.KVSnapshot) (map[string]string, []string, error) {
			bk := make([][]byte, len(ks2))
			for i, k := range ks2 {
				bk[i] = []byte(k)
			}
			m, err := s.BatchGet(ctx, bk)
			if err != nil {
				return nil, nil, err
			}
			r := map[string]string{}
			for k, v := range m {
				r[k] = string(v.Value)
			}
			return r, nil, nil
		}})
	}
	// Batch gets that one region's key group cannot carry in a single request: the snapshot cuts a
	// group after 5120 keys (batchGetSize), so 5130 absent filler keys (sorting directly after a or
	// c) in front of, around (the cut falls between two real keys) or behind the real keys make two sub-requests with different contents
	// whatever the region layout.
	for _, p := range []string{"a", "c"} {
		var fill []string
		for i := 0; i < 5130; i++ {
			fill = append(fill, fmt.Sprintf("%s\x00%04d", p, i))
		}
		for _, shape := range []string{"front", "cut", "back"} {
			var ks3 []string
			switch shape {
			case "front":
				ks3 = append(append(ks3, fill...), all...)
			case "cut":
				// the real keys sit on both sides of the cut (index batchGetSize-1 / batchGetSize of
				// the group) when they share the fillers' region
				ks3 = append(append(append(ks3, fill[:5119]...), all...), fill[5119:]...)
			case "back":
				ks3 = append(append(ks3, all...), fill...)
			}
			out = append(out, readCase{name: "bget-oversize(" + p + "-fillers-" + shape + ")", keys: func([]string) []string { return ks3 }, run: func(s *txnsnapshot.KVSnapshot) (map[string]string, []string, error) {
				bk := make([][]byte, len(ks3))
				for i, k := range ks3 {
					bk[i] = []byte(k)
				}
				m, err := s.BatchGet(ctx, bk)
				if err != nil {
					return nil, nil, err
				}
				r := map[string]string{}
				for k, v := range m {
					r[k] = string(v.Value)
				}
				return r, nil, nil
			}})
		}
	}
	bounds := []string{"", "a", "b", "bb", "c", "d"}
	for _, rev := range []bool{false, true} {
		if rev && !mock {
			continue // unistore's reverse scan is not trusted (see DESIGN change log)
		}
		for _, lo := range bounds {
			for _, hi := range bounds {
				if hi != "" && lo > hi {
					continue
				}
				if hi == "" && (rev || !mock) {
					// reverse from the end of the key space: recorded known finding of C01 (keyed there);
					// forward unbounded scans on unistore would see the store's own bookkeeping keys
					continue
				}
				for _, bs := range []int{2, 3} {
					for _, ko := range []bool{false, true} {
						if ko && bs == 3 {
							continue
						}
						lo, hi, bs, ko, rev := lo, hi, bs, ko, rev
						name := fmt.Sprintf("iter[%s,%s)/batch%d", lo, hi, bs)
						if rev {
							name = "r" + name
						}
						if ko {
							name += "/keyonly"
						}
						out = append(out, readCase{name: name, scan: true, rev: rev, lo: lo, hi: hi, kOnly: ko, run: func(s *txnsnapshot.KVSnapshot) (map[string]string, []string, error) {
							s.SetScanBatchSize(bs)
							s.SetKeyOnly(ko)
							defer s.SetKeyOnly(false)
							var l, h []byte
							if lo != "" {
								l = []byte(lo)
							}
							if hi != "" {
								h = []byte(hi)
							}
							var it interface {
								Valid() bool
								Next() error
								Key() []byte
								Value() []byte
								Close()
							}
							var err error
							if rev {
								it, err = s.IterReverse(h, l)
							} else {
								it, err = s.Iter(l, h)
							}
							if err != nil {
								return nil, nil, err
							}
							defer it.Close()
							r := map[string]string{}
							var order []string
							for n := 0; it.Valid() && n < 50; n++ {
								order = append(order, string(it.Key()))
								r[string(it.Key())] = string(it.Value())
								if err := it.Next(); err != nil {
									return nil, nil, err
								}
							}
							return r, order, nil
						}})
					}
				}
			}
		}
	}
	return out
}

// expected result of a case at ts on the final truth.
func expected(c readCase, t *txnh.Truth, ts uint64) (map[string]string, []string) {
	vals := map[string]string{}
	var order []string
	if !c.scan {
		for _, k := range c.keys(nil) {
			if v, ok := t.VisibleAt(k, ts); ok {
				vals[k] = v
			}
		}
		return vals, nil
	}
	ks := append([]string{}, t.Keys...)
	sort.Strings(ks)
	for _, k := range ks {
		if (c.lo != "" && k < c.lo) || (c.hi != "" && k >= c.hi) {
			continue
		}
		if v, ok := t.VisibleAt(k, ts); ok {
			vals[k] = v
			order = append(order, k)
		}
	}
	if c.rev {
		sort.Sort(sort.Reverse(sort.StringSlice(order)))
	}
	return vals, order
}

type obs struct {
	cas   readCase
	ts    uint64
	vals  map[string]string
	order []string
	err   error
	tag   string
}

func main() {
	txnh.Init()
	run := ev.Start("C05", "model_checking")
	keys := []string{"a", "b", "c", "d"}
	F := 2
	budget := 160 * time.Second
	if run.Thorough() {
		budget = 35 * time.Minute
	}
	if s := os.Getenv("VERIF_BUDGET_S"); s != "" {
		var n int
		fmt.Sscan(s, &n)
		budget = time.Duration(n) * time.Second
	}
	commit := txnh.Op{Kind: "commit"}
	type writer struct {
		name string
		pess bool
		ops  []txnh.Op
	}
	w0s := []writer{
		{"set(a);set(b);set(c)", false, []txnh.Op{op("set", "a"), op("set", "b"), op("set", "c"), commit}},
		{"delete(a);set(c)", false, []txnh.Op{op("delete", "a"), op("set", "c"), commit}},
	}
	w1s := []writer{
		{"P:lock(b);set(b)", true, []txnh.Op{op("lock", "b"), op("set", "b"), commit}},
		{"lock-only(a);lock-only(c);set(b)", false, []txnh.Op{op("lock", "a"), op("lock", "c"), op("set", "b"), commit}},
		{"set(b);set(d)", false, []txnh.Op{op("set", "b"), op("set", "d"), commit}},
	}
	if !run.Thorough() {
		w1s = w1s[:2]
	}
	var jobs []sched.Job
	specs := map[string]func() *txnh.TxnScenario{}
	for _, bk := range common.BackendsTier(run.Thorough()) {
		mock := bk.Name == "mocktikv"
		for _, m := range bk.Modes {
			if m.Pessimistic {
				continue
			}
			for _, w0 := range w0s {
				for _, w1 := range w1s {
					for _, lo := range common.Layouts(run.Thorough()) {
						if !mock && !run.Thorough() && lo.Name != "1region" {
							continue
						}
						if !mock && strings.HasPrefix(w1.name, "lock-only") {
							continue // unistore keeps no commit record for lock-only keys (DESIGN R3)
						}
						bk, m, w0, w1, lo, mock := bk, m, w0, w1, lo, mock
						name := fmt.Sprintf("%s/%s/%s/W0=%s/W1=%s", bk.Name, lo.Name, m, w0.name, w1.name)
						mk := func() *txnh.TxnScenario {
							doneHist := map[string]bool{} // histories (store dumps) whose read grid was already evaluated
							m0, m1 := m, m
							m0.Pessimistic, m1.Pessimistic = w0.pess, w1.pess
							sc := &txnh.TxnScenario{ID: name, NewBackend: func() txnh.Backend { return bk.New(lo.Splits) }, Keys: keys,
								Progs: [][]txnh.Program{{{Mode: m0, Ops: w0.ops, KeepGoing: true}}, {{Mode: m1, Ops: w1.ops, KeepGoing: true}}}}
							sc.SetupFn = func(s *txnh.TxnScenario) { common.SeedKey(s, "a", "base-a", "c", "base-c") }
							sc.MenuFn = func(s *txnh.TxnScenario, e *sched.Event) []sched.Dev {
								if s.W.Crashed(e.Actor) || e.Actor > 1 {
									return nil
								}
								switch e.Kind {
								case sched.KRPC:
									return []sched.Dev{{Name: "crash-undelivered", Kind: txnh.DevCrash}, {Name: "crash-delivered", Kind: txnh.DevCrashDlv}}
								}
								return nil
							}
							sc.CheckFn = func(s *txnh.TxnScenario, x *sched.Exec) []sched.Violation {
								for i := 0; i < 2; i++ {
									o := s.H.Txns[i].Outcome
									if !s.W.Crashed(i) && (o == "open" || o == "unstarted") {
										return nil // a writer is still alive (horizon): readers may wait for it; not judged
									}
								}
								// the grid runs on a fresh client and depends only on the store's content: evaluate each
								// distinct history once per scenario
								tr := txnh.ReadTruth(s.W.B, s.Keys)
								hk := fmt.Sprint(tr.Versions, tr.Locks)
								if doneHist[hk] && !common.Replaying {
									return nil
								}
								doneHist[hk] = true
								return readGrid(s, mock)
							}
							return sc
						}
						specs[name] = mk
						jobs = append(jobs, sched.Job{Name: name, Run: func(dl time.Time) sched.Report {
							sc := mk()
							x := &sched.Explorer{Sc: sc, B: sched.Bounds{P: 0, F: F, Horizon: 300, Deadline: dl}}
							x.Outcome = func(e *sched.Exec) string {
								var ls []string
								for _, l := range sc.W.B.Locks() {
									ls = append(ls, l.Key+":"+l.Type)
								}
								return sc.H.Txns[0].Outcome + "/" + sc.H.Txns[1].Outcome + " locks-after=" + strings.Join(ls, ",")
							}
							return x.Explore(false)
						}})
					}
				}
			}
		}
	}
	// The very first read of each history (the one that meets the leftover locks) is a full batch get through {sync, async path} x {lock reported at pair level, at response level without pairs}, rotating with the history. Explored reader: a 3-key writer dead at any seam event, locks expired, a batch-get reader as an explored actor (P=1: the answers to the concurrent status checks of its resolver in any order; quick: async commit over 3 regions): the dead transaction is driven to the outcome the protocol fixes and the reader returns the MVCC truth. Faulted reads: one reader transaction (its snapshot is reused by all its reads) over committed data
	// in 2-3 regions, with deviations at its read RPCs - a non-retriable store answer (key error "abort")
	// for one region's part of a read, a lost request, NotLeader, the store unreachable for that command
	// from here on - and one preemption, so that the parts of a fanned-out batch get answer in either
	// order. A read may fail; a read that succeeds must report exactly the committed pairs, and so must
	// every later read of the same snapshot (nothing learned from a failed read may stick).
	abortAnswer := func(req *tikvrpc.Request) *tikvrpc.Response {
		ke := &kvrpcpb.KeyError{Abort: "injected abort"}
		switch req.Type {
		case tikvrpc.CmdGet:
			return &tikvrpc.Response{Resp: &kvrpcpb.GetResponse{Error: ke}}
		case tikvrpc.CmdBatchGet:
			return &tikvrpc.Response{Resp: &kvrpcpb.BatchGetResponse{Error: ke}}
		case tikvrpc.CmdScan:
			return &tikvrpc.Response{Resp: &kvrpcpb.ScanResponse{Error: ke}}
		}
		return nil
	}
	for _, bk := range common.BackendsTier(run.Thorough()) {
		for _, lo := range common.Layouts(true) {
			if lo.Name == "1region" {
				continue
			}
			for _, async := range []bool{false, true} {
				bk, lo, async := bk, lo, async
				name := fmt.Sprintf("%s/%s/faulted-reads/async-batch-get=%v", bk.Name, lo.Name, async)
				rops := []txnh.Op{{Kind: "bget", Keys: []string{"a", "b", "c"}}, op("get", "a"), op("get", "c"), {Kind: "bget", Keys: []string{"a", "b", "c"}}, {Kind: "iter", Hi: "d"}, commit}
				FR := 1
				if run.Thorough() {
					FR = 2
				}
				mk := func() *txnh.TxnScenario {
					sc := &txnh.TxnScenario{ID: name, NewBackend: func() txnh.Backend { return bk.New(lo.Splits) }, Keys: keys,
						Progs: [][]txnh.Program{{{Mode: txnh.Mode{}, Ops: rops}}}}
					var restore func()
					sc.SetupFn = func(s *txnh.TxnScenario) {
						common.SeedKey(s, "a", "base-a", "b", "base-b", "c", "base-c")
						old := config.GetGlobalConfig().EnableAsyncBatchGet
						config.UpdateGlobal(func(c *config.Config) { c.EnableAsyncBatchGet = async })
						restore = func() { config.UpdateGlobal(func(c *config.Config) { c.EnableAsyncBatchGet = old }) }
					}
					sc.MenuFn = func(s *txnh.TxnScenario, e *sched.Event) []sched.Dev {
						req, ok := e.Payload.(*tikvrpc.Request)
						if e.Actor != 0 || e.Kind != sched.KRPC || !ok || abortAnswer(req) == nil {
							return nil
						}
						return []sched.Dev{
							{Name: "abort", Kind: txnh.DevAnswer, Arg: abortAnswer},
							{Name: "drop-req", Kind: txnh.DevDropReq},
							{Name: "down-req", Kind: txnh.DevDownReq},
							{Name: "not-leader", Kind: txnh.DevRegionErr, Arg: &errorpb.Error{Message: "injected", NotLeader: &errorpb.NotLeader{RegionId: req.Context.GetRegionId()}}},
						}
					}
					sc.CheckFn = func(s *txnh.TxnScenario, x *sched.Exec) []sched.Violation {
						if restore != nil {
							restore()
						}
						t := txnh.ReadTruth(s.W.B, s.Keys)
						t.Splits, t.Log = lo.Splits, s.W.Log()
						var out []sched.Violation
						for _, v := range txnh.AuditSI(s.H, t) {
							v.Key = "faulted-read:" + v.Key
							out = append(out, v)
						}
						return out
					}
					return sc
				}
				specs[name] = mk
				jobs = append(jobs, sched.Job{Name: name, Run: func(dl time.Time) sched.Report {
					sc := mk()
					x := &sched.Explorer{Sc: sc, B: sched.Bounds{P: 1, F: FR, Horizon: 400, EarlyTimers: true, Deadline: dl}}
					x.Outcome = func(e *sched.Exec) string { return sc.OutcomeString() }
					return x.Explore(false)
				}})
			}
		}
	}
	// Reader as an explored actor (common.ExploredRecovery, shared with C02): the writer dies at an
	// enumerated seam event, its locks expire, and a reader arrives whose resolver's concurrent status
	// checks (CheckTxnStatus, CheckSecondaryLocks per region) are answered in any order within one
	// preemption. "Locks of finished transactions are resolved to their true outcome": the outcome the
	// reader drives the dead transaction to must be the one the protocol fixes (all keys or none, in line
	// with what the writer was told), and what the reader returns must be the MVCC truth at its timestamp.
	for _, er := range common.ExploredRecovery(run.Thorough(), []string{"a", "b", "c"}) {
		if !run.Thorough() && !(strings.Contains(er.Name, "async") && strings.Contains(er.Name, "split@b,c")) {
			continue
		}
		er := er
		name := er.Name + "/c05"
		mk := func() *txnh.TxnScenario {
			sc := er.Make()
			sc.ID = name
			sc.CheckFn = func(s *txnh.TxnScenario, x *sched.Exec) []sched.Violation {
				v := s.H.Txns[0]
				if !s.W.Crashed(0) && (v.Outcome == "open" || v.Outcome == "unstarted") {
					return nil
				}
				vs, _, t := common.AuditVictimR(s, x, 0, "", "reader-gc")
				var out []sched.Violation
				for _, sv := range vs {
					sv.Key = "lock-resolved-to-wrong-outcome:" + sv.Key
					out = append(out, sv)
				}
				if t != nil {
					t.Splits = er.Splits
					for _, sv := range txnh.AuditSI(s.H, t) {
						sv.Key = "explored-reader:" + sv.Key
						out = append(out, sv)
					}
				}
				return out
			}
			return sc
		}
		specs[name] = mk
		jobs = append(jobs, sched.Job{Name: name, Run: func(dl time.Time) sched.Report {
			sc := mk()
			x := &sched.Explorer{Sc: sc, B: sched.Bounds{P: 1, F: 2, Horizon: 500, EarlyTimers: false, Deadline: dl}}
			x.Outcome = func(e *sched.Exec) string { return sc.H.Txns[0].Outcome + fmt.Sprint(len(sc.W.Log())) }
			return x.Explore(false)
		}})
	}
	if common.HandleReplay(run, jobs, func(name string) sched.Scenario {
		if mk, ok := specs[name]; ok {
			return mk()
		}
		return nil
	}, sched.Bounds{P: 99, F: 99, Horizon: 300}) {
		return
	}
	res := sched.RunSharded(jobs, budget)
	common.Finish(run, jobs, res, common.FinishOpts{
		Bounds: map[string]any{"crashes": F, "keys": keys, "scan_batch_sizes": []int{2, 3}, "bounds": []string{"", "a", "b", "bb", "c", "d"}},
		Rule: "histories: two writers (3-key optimistic / delete+set; pessimistic or 2-key optimistic) x commit modes x layouts, crashed at every combination of <= 2 store RPCs (undelivered / delivered-unanswered), over committed base data; " +
			"on each history, after the locks' TTL has passed: every snapshot ts in {base commit, each writer's start, each writer's commit, newest} x {get of each of 4 keys, batch get of every subset >= 2, forward and reverse scans over all bound pairs x batch size {2,3} x key-only, each read repeated on the warm snapshot, SetSnapshotTS to every other ts and back} on a cold client, plus a region split before each of the first RPCs of every scan / full batch get; " +
			"every answer is compared with the MVCC truth of the final (fully resolved) state at that ts. Faulted reads: one reader transaction (batch get of 3 keys, gets, batch get again, scan - all on one snapshot) over 2-3 regions, both settings of EnableAsyncBatchGet, P=1 and 1 (thorough 2) deviations at its read RPCs out of {store answers key error abort, request lost, store unreachable from here on, NotLeader}: a read that succeeds reports exactly the committed pairs. distinct_nontrivial = distinct (writer outcomes, leftover lock sets) histories",
		Assumptions: []string{
			"writers that are still alive when the exploration ends are not judged (a reader may wait for them)",
			"unbounded reverse scans are the recorded known finding of C01 and are not repeated here; on unistore reverse scans and unbounded forward scans are left out (store-side artefacts, see DESIGN change log)",
			"the reads run in the synchronous phase (no interleaving with the writers: those are dead); topology changes during a read are injected before chosen RPC indices",
		},
	})
}

// readGrid runs the exhaustive read grid on the current history and returns the disagreements with
// the final MVCC truth.
// safeRun runs a read case and converts a panic (e.g. the mock store's "key not in region" assertion,
// which means the client sent a request to the wrong region) into an error.
func safeRun(c readCase, snap *txnsnapshot.KVSnapshot) (v map[string]string, o []string, err error) {
	defer func() {
		if p := recover(); p != nil {
			err = fmt.Errorf("panic: %v", p)
		}
	}()
	return c.run(snap)
}

func readGrid(s *txnh.TxnScenario, mock bool) []sched.Violation {
	var out []sched.Violation
	seen := map[string]bool{}
	add := func(key, format string, a ...any) {
		if seen[key] && len(out) > 40 {
			return
		}
		seen[key] = true
		out = append(out, sched.Violation{Key: key, What: fmt.Sprintf(format, a...)})
	}
	cs := cases(mock)
	var observed []obs
	sched.Sync(func() {
		sched.Advance(25 * time.Second) // every leftover lock has outlived its TTL
		// candidate snapshot timestamps
		tsSet := map[uint64]bool{}
		for _, t := range s.H.Txns {
			if t.StartTS != 0 {
				tsSet[t.StartTS] = true
				tsSet[t.StartTS-1] = true
			}
			if t.CommitTS != 0 {
				tsSet[t.CommitTS] = true
				tsSet[t.CommitTS-1] = true
			}
		}
		pre := txnh.ReadTruth(s.W.B, s.Keys)
		for _, k := range s.Keys {
			for _, v := range pre.Versions[k] {
				if v.Type != "rollback" {
					tsSet[v.CommitTS] = true
				}
			}
		}
		c := s.W.AddClient()
		now, err := c.Store.CurrentTimestamp("global")
		if err != nil {
			return
		}
		tsSet[now] = true
		// First meeting: the leftover locks are resolved by the first read that meets them, so the very
		// first read of each history is a full batch get through one of four combinations, rotating with
		// the history: {synchronous, asynchronous batch-get path} x {the store reports a locked key at pair
		// level, or - as TiKV's command-level lock check does - as a response-level error without pairs}.
		{
			combo := 0
			for _, ch := range fmt.Sprint(pre.Versions, pre.Locks) {
				combo = (combo*31 + int(ch)) % 4
			}
			async, respLevel := combo&1 == 1, combo&2 == 2
			oldAsync := config.GetGlobalConfig().EnableAsyncBatchGet
			config.UpdateGlobal(func(c *config.Config) { c.EnableAsyncBatchGet = async })
			if respLevel {
				s.W.AfterRPC = func(cl *txnh.Client, req *tikvrpc.Request, resp *tikvrpc.Response) *tikvrpc.Response {
					r, ok := resp.Resp.(*kvrpcpb.BatchGetResponse)
					if !ok || r.Error != nil {
						return resp
					}
					for _, p := range r.Pairs {
						if p.Error != nil && p.Error.Locked != nil {
							return &tikvrpc.Response{Resp: &kvrpcpb.BatchGetResponse{Error: p.Error}}
						}
					}
					return resp
				}
			}
			c0 := s.W.AddClient()
			for _, cas := range cs {
				if cas.name == "bget(a,b,c,d)" {
					snap0 := c0.Store.GetSnapshot(now)
					v, o, err := safeRun(cas, snap0)
					tag := fmt.Sprintf("first-meeting/async=%v/lock-reported-at-response-level=%v", async, respLevel)
					observed = append(observed, obs{cas, now, v, o, err, tag})
					v2, o2, err2 := safeRun(cas, snap0)
					observed = append(observed, obs{cas, now, v2, o2, err2, tag + "/repeat"})
				}
			}
			s.W.AfterRPC = nil
			config.UpdateGlobal(func(c *config.Config) { c.EnableAsyncBatchGet = oldAsync })
		}
		var tss []uint64
		for ts := range tsSet {
			tss = append(tss, ts)
		}
		sort.Slice(tss, func(i, j int) bool { return tss[i] < tss[j] })
		for ti, ts := range tss {
			snap := c.Store.GetSnapshot(ts)
			for _, cas := range cs {
				if !cas.scan {
					// point and batch gets also on a snapshot of their own: on the shared one the keys
					// are cached after the first few cases and later batch gets never reach the wire
					v0, o0, err0 := safeRun(cas, c.Store.GetSnapshot(ts))
					observed = append(observed, obs{cas, ts, v0, o0, err0, "cold-own-snapshot"})
				}
				v, o, err := safeRun(cas, snap)
				observed = append(observed, obs{cas, ts, v, o, err, "cold"})
				v2, o2, err2 := safeRun(cas, snap)
				observed = append(observed, obs{cas, ts, v2, o2, err2, "repeat"})
			}
			// move the snapshot to another timestamp and back: answers cached for the old ts must not leak
			other := tss[(ti+1)%len(tss)]
			snap.SetSnapshotTS(other)
			for _, cas := range cs {
				if cas.scan && cas.kOnly {
					continue
				}
				v, o, err := safeRun(cas, snap)
				observed = append(observed, obs{cas, other, v, o, err, "after-SetSnapshotTS"})
			}
			snap.SetSnapshotTS(ts)
			for _, cas := range cs[:8] {
				v, o, err := safeRun(cas, snap)
				observed = append(observed, obs{cas, ts, v, o, err, "after-SetSnapshotTS-back"})
			}
		}
		// topology change right before the k-th RPC of a multi-RPC read (fresh client: cold region cache as well)
		ts := tss[len(tss)-1]
		for _, splitKey := range []string{"b", "c"} {
			for _, cas := range cs {
				if cas.name != "iter[,d)/batch2" && cas.name != "riter[,d)/batch2" && cas.name != "iter[a,d)/batch3" && cas.name != "bget(a,b,c,d)" {
					continue
				}
				for k := 0; k < 2; k++ {
					c2 := s.W.AddClient()
					// warm the region cache with the old layout first
					c2.Store.GetSnapshot(ts).Get(context.Background(), []byte("a"))
					n := 0
					s.W.BeforeRPC = func(cl *txnh.Client, req *tikvrpc.Request) {
						if cl != c2 {
							return
						}
						if n == k {
							s.W.B.SplitAt([]byte(splitKey))
						}
						n++
					}
					v, o, err := safeRun(cas, c2.Store.GetSnapshot(ts))
					s.W.BeforeRPC = nil
					if err != nil && os.Getenv("VERIF_DEBUG") != "" {
						lg := s.W.Log()
						for _, r := range lg[max(0, len(lg)-6):] {
							fmt.Fprintf(os.Stderr, "  #%d c%d %s req=%v resp=%v\n", r.Seq, r.Client, r.Label, r.Req.Req, r.Resp)
						}
						fmt.Fprintf(os.Stderr, "  -> %v\n", err)
					}
					observed = append(observed, obs{cas, ts, v, o, err, fmt.Sprintf("split@%s-before-rpc%d", splitKey, k)})
				}
			}
		}
	})
	// final truth after forced resolution
	rc := txnh.ForceResolve(s.W, s.Keys, "reader-gc")
	_ = rc
	t := txnh.ReadTruth(s.W.B, s.Keys)
	for _, o := range observed {
		if o.err != nil {
			add("read:error:"+kind(o.cas), "%s at ts %d (%s) failed: %v", o.cas.name, o.ts, o.tag, o.err)
			continue
		}
		wantV, wantO := expected(o.cas, t, o.ts)
		if o.cas.scan {
			if strings.Join(wantO, ",") != strings.Join(o.order, ",") {
				add("read:"+kind(o.cas)+":keys:"+o.tagClass(), "%s at ts %d (%s) yielded keys %v, MVCC truth %v; versions a=%v b=%v c=%v d=%v", o.cas.name, o.ts, o.tag, o.order, wantO, t.Versions["a"], t.Versions["b"], t.Versions["c"], t.Versions["d"])
				continue
			}
			if o.cas.kOnly {
				continue
			}
		}
		for _, k := range union(wantV, o.vals) {
			if wantV[k] != o.vals[k] {
				add("read:"+kind(o.cas)+":value:"+o.tagClass(), "%s at ts %d (%s) returned %s=%q, MVCC truth %q; versions %v", o.cas.name, o.ts, o.tag, k, o.vals[k], wantV[k], t.Versions[k])
			}
		}
	}
	return out
}

func (o obs) tagClass() string {
	if strings.HasPrefix(o.tag, "split@") {
		return "during-split"
	}
	if strings.HasPrefix(o.tag, "first-meeting/") {
		return strings.TrimSuffix(o.tag, "/repeat")
	}
	return o.tag
}

func kind(c readCase) string {
	switch {
	case c.scan && c.rev:
		return "riter"
	case c.scan:
		return "iter"
	case strings.HasPrefix(c.name, "bget"):
		return "bget"
	}
	return "get"
}

func union(a, b map[string]string) []string {
	m := map[string]bool{}
	for k := range a {
		m[k] = true
	}
	for k := range b {
		m[k] = true
	}
	var out []string
	for k := range m {
		out = append(out, k)
	}
	sort.Strings(out)
	return out
}

// Package unibk registers TiDB's embedded TiKV (unistore) as a store backend:
// it implements async commit, one-phase commit, CheckSecondaryLocks and the
// pipelined-DML commands that the in-repo mock lacks. Its timestamp source
// (unistore/tikv.GetTS) is overlaid at build time to call VerifGetTS, so that
// client and store draw from the one scripted oracle.
package unibk

import (
	"bytes"
	"sync"
	_ "unsafe"
	"context"
	"fmt"
	"os"
	"sort"
	"time"

	"veriftxn/common"

	"github.com/pingcap/kvproto/pkg/kvrpcpb"
	"github.com/pingcap/kvproto/pkg/metapb"
	"github.com/pingcap/tidb/pkg/store/mockstore/unistore"
	ustikv "github.com/pingcap/tidb/pkg/store/mockstore/unistore/tikv"
	"github.com/tikv/client-go/v2/tikv"
	"github.com/tikv/client-go/v2/tikvrpc"
	"github.com/tikv/client-go/v2/util/codec"
	"github.com/tikv/client-go/v2/util/async"
	"github.com/tikv/client-go/v2/verifrt/txnh"
	pd "github.com/tikv/pd/client"
	"github.com/tikv/pd/client/constants"
)

type backend struct {
	cli     *unistore.RPCClient
	pdc     pd.Client
	cluster *unistore.Cluster
	wrap    *clientWrapper
}

type clientWrapper struct{ *unistore.RPCClient }

func (c *clientWrapper) SendRequestAsync(ctx context.Context, addr string, req *tikvrpc.Request, cb async.Callback[*tikvrpc.Response]) {
	go func() { cb.Schedule(c.SendRequest(ctx, addr, req, tikv.ReadTimeoutShort)) }()
}
func (c *clientWrapper) SetEventListener(listener tikv.ClientEventListener) {}

// SendRequest: unistore makes a pessimistic lock request that meets a lock wait inside the store on a
// real-time timer (for ever with "always wait"). A goroutine blocked there is invisible to the
// explorer and can outlive the execution (teardown then hangs). The store is therefore always asked
// not to wait (it answers "locked" at once); the client then waits on its side (resolver + virtual
// back-off), which is the path its lock-wait setting selects anyway once the store gives up.
func (c *clientWrapper) SendRequest(ctx context.Context, addr string, req *tikvrpc.Request, timeout time.Duration) (*tikvrpc.Response, error) {
	if req.Type == tikvrpc.CmdPessimisticLock {
		q := *req.PessimisticLock()
		q.WaitTimeout = -1 // kv.LockNoWait
		r := *req
		r.Req = &q
		return c.RPCClient.SendRequest(ctx, addr, &r, timeout)
	}
	return c.RPCClient.SendRequest(ctx, addr, req, timeout)
}

// unistore keeps its timestamp counter in an unexported package variable and takes
// max(wall clock, counter). The scripted oracle's virtual time starts in the year 2100, so after
// we store the virtual physical time here, unistore's GetTS only ever increments the logical
// part: client (through Oracle.Source below) and store (min-commit-ts, max-ts) draw from this
// one strictly increasing, deterministic counter.
//
//go:linkname tsMu github.com/pingcap/tidb/pkg/store/mockstore/unistore/tikv.tsMu
var tsMu struct {
	sync.Mutex
	physicalTS int64
	logicalTS  int64
}

func tsSource(physicalMS int64) (int64, int64) {
	tsMu.Lock()
	if physicalMS > tsMu.physicalTS {
		tsMu.physicalTS = physicalMS
	}
	tsMu.Unlock()
	return ustikv.GetTS()
}

// TSSource implements the optional backend hook of txnh.NewWorld.
func (b *backend) TSSource() func(int64) (int64, int64) { return tsSource }

func init() {
	all := []txnh.Mode{{}, {Async: true}, {OnePC: true, Async: true}, {Pessimistic: true}, {Pessimistic: true, Async: true}, {Pessimistic: true, OnePC: true, Async: true}}
	common.Register(common.BackendSpec{Name: "unistore", Modes: all, New: func(splits []string) txnh.Backend { return New(splits) }})
}

// New creates a unistore instance with one store and the given split keys.
func New(splits []string) txnh.Backend {
	cli, pdc, cluster, err := unistore.New("", nil, constants.NullKeyspaceID, nil)
	if err != nil {
		panic(err)
	}
	unistore.BootstrapWithSingleStore(cluster)
	// fresh counter for every world (deterministic timestamps per execution)
	tsMu.Lock()
	tsMu.physicalTS, tsMu.logicalTS = 0, 0
	tsMu.Unlock()
	b := &backend{cli: cli, pdc: pdc, cluster: cluster}
	b.wrap = &clientWrapper{cli}
	for _, k := range splits {
		b.SplitAt([]byte(k))
	}
	return b
}

func (b *backend) Name() string     { return "unistore" }
func (b *backend) RPC() tikv.Client { return b.wrap }
func (b *backend) PD() pd.Client    { return b.pdc }

// region finds the region of a raw key (region ranges are mem-comparable encoded).
func (b *backend) region(key []byte) (*metapb.Region, *metapb.Peer) {
	return b.regionEnc(codec.EncodeBytes(nil, key))
}

func (b *backend) regionEnc(enc []byte) (*metapb.Region, *metapb.Peer) {
	r, p, _, _ := b.cluster.GetRegionByKey(enc)
	return r, p
}

func (b *backend) SplitAt(key []byte) {
	r, p := b.region(key)
	if r == nil || bytes.Equal(r.StartKey, codec.EncodeBytes(nil, key)) {
		return
	}
	ids := b.cluster.AllocIDs(2)
	_ = p
	b.cluster.Split(r.Id, ids[0], key, []uint64{ids[1]}, ids[1])
}

func (b *backend) TransferLeader(key []byte) {}

func (b *backend) send(key []byte, req *tikvrpc.Request) *tikvrpc.Response {
	r, p := b.region(key)
	return b.sendTo(r, p, req)
}

func (b *backend) sendTo(r *metapb.Region, p *metapb.Peer, req *tikvrpc.Request) *tikvrpc.Response {
	if r == nil || p == nil {
		return nil
	}
	req.Context.RegionId = r.Id
	req.Context.RegionEpoch = r.RegionEpoch
	req.Context.Peer = p
	resp, err := b.cli.SendRequest(context.Background(), fmt.Sprintf("store%d", p.StoreId), req, time.Second)
	if err != nil {
		if os.Getenv("VERIF_DEBUG") != "" {
			fmt.Fprintf(os.Stderr, "unibk: %v\n", err)
		}
		return nil
	}
	return resp
}

func opName(op kvrpcpb.Op) string {
	switch op {
	case kvrpcpb.Op_Put:
		return "put"
	case kvrpcpb.Op_Del:
		return "del"
	case kvrpcpb.Op_Lock:
		return "lock"
	case kvrpcpb.Op_Rollback:
		return "rollback"
	case kvrpcpb.Op_PessimisticLock:
		return "pessimistic"
	}
	return op.String()
}

func (b *backend) Versions(key []byte) []txnh.Version {
	resp := b.send(key, tikvrpc.NewRequest(tikvrpc.CmdMvccGetByKey, &kvrpcpb.MvccGetByKeyRequest{Key: key}))
	if resp == nil || resp.Resp == nil {
		return nil
	}
	info := resp.Resp.(*kvrpcpb.MvccGetByKeyResponse).Info
	if os.Getenv("VERIF_DEBUG") != "" {
		fmt.Fprintf(os.Stderr, "unibk: mvcc %q -> %v\n", key, resp.Resp)
	}
	if info == nil {
		return nil
	}
	vals := map[uint64]string{}
	for _, v := range info.Values {
		vals[v.StartTs] = string(v.Value)
	}
	var out []txnh.Version
	for _, w := range info.Writes {
		v := txnh.Version{StartTS: w.StartTs, CommitTS: w.CommitTs, Type: opName(w.Type)}
		if w.Type == kvrpcpb.Op_Put {
			if w.ShortValue != nil {
				v.Value = string(w.ShortValue)
			} else {
				v.Value = vals[w.StartTs]
			}
		}
		out = append(out, v)
	}
	sort.SliceStable(out, func(i, j int) bool { return out[i].CommitTS > out[j].CommitTS })
	return out
}

func (b *backend) Locks() []txnh.LockRec {
	var out []txnh.LockRec
	seen := map[uint64]bool{}
	// walk the regions from the start of the key space
	key := []byte{0} // encoded form; smaller than every encoded key
	for i := 0; i < 64; i++ {
		r, p := b.regionEnc(key)
		if r == nil || seen[r.Id] {
			break
		}
		seen[r.Id] = true
		resp := b.sendTo(r, p, tikvrpc.NewRequest(tikvrpc.CmdScanLock, &kvrpcpb.ScanLockRequest{MaxVersion: ^uint64(0), Limit: 1024}))
		if os.Getenv("VERIF_DEBUG") != "" {
			fmt.Fprintf(os.Stderr, "unibk: scanlock region %d [%q,%q) -> %v\n", r.Id, r.StartKey, r.EndKey, resp)
		}
		if resp != nil && resp.Resp != nil {
			for _, l := range resp.Resp.(*kvrpcpb.ScanLockResponse).Locks {
				out = append(out, txnh.LockRec{Key: string(l.Key), Primary: string(l.PrimaryLock), StartTS: l.LockVersion, Type: opName(l.LockType), TTL: l.LockTtl})
			}
		}
		if len(r.EndKey) == 0 {
			break
		}
		key = r.EndKey
	}
	return out
}

func (b *backend) Close() {
	b.cli.Close()
}

#!/bin/bash
# MANIFEST.setup_cmd: build the framework from files on disk only (offline).
set -e
V="$(cd "$(dirname "$0")" && pwd)"
. "$V/env.sh"
mkdir -p "$V/bin" "$V/build" "$V/evidence"
(cd "$V/tools/mkoverlay" && $GO build -o "$V/bin/mkoverlay" .)
# warm the build cache: build every registered harness once
for id in $(python3 -c "import json;print(' '.join(c['property_id'] for c in json.load(open('$V/MANIFEST.json'))['checks']))"); do
  VERIF_BUILD_ONLY=1 "$V/check" "$id" quick >/dev/null 2>&1 || echo "setup: warm build of $id failed (will be retried by the check)" >&2
done
echo setup done
